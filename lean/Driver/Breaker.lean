import Failsafe.Breaker
/-! Line protocol for the `breaker` slice (virtual clock):
  breaker cfg <ft> <frt> <ftc> <fet> <period> <st> <stc> <delay> <delayFn|-1> <t0>
  breaker adv <ns> | rs | rf | xs | xf | try | open | halfopen | close | probe
  => <state> <permit T|F|-> <exec> <fails> <frate> <succs> <srate> <remaining> [ev <old>><new>:<metrics> …]
`xs`/`xf` record through an execution (the delay function is consulted when such a failure opens the breaker). -/
namespace Driver.Breaker
open Failsafe.Breaker

structure St where
  c : Cfg := ⟨1, 0, 1, 0, 0, 0, 0, 0, -1⟩
  b : B := B.new ⟨1, 0, 1, 0, 0, 0, 0, 0, -1⟩
  now : Int := 0
  nontrivial : Nat := 0     -- operations that produced a state-change event
  transitions : Nat := 0
  refused : Nat := 0

def metricsStr (m : Nat × Nat × Nat × Nat × Nat) : String :=
  s!"{m.1} {m.2.1} {m.2.2.1} {m.2.2.2.1} {m.2.2.2.2}"

def evStr (e : Event) : String := s!"{e.old.str}>{e.new.str}:{metricsStr e.metrics}"

def out (st : St) (permit : String) : String :=
  let evs := " ".intercalate (st.b.events.map evStr)
  s!"{st.b.tag.str} {permit} {metricsStr (snapshot st.b.stats)} {remaining st.b st.now}" ++
    (if evs.isEmpty then "" else " ev " ++ evs)

def fin (st : St) (permit : String) : St × Option String :=
  let n := st.b.events.length
  let st := { st with nontrivial := st.nontrivial + (if n > 0 || permit == "F" then 1 else 0), transitions := st.transitions + n,
                      refused := st.refused + (if permit == "F" then 1 else 0) }
  (st, some (out st permit))

def nat! (s : String) : Nat := s.toNat?.getD 0
def int! (s : String) : Int := s.toInt?.getD 0

def step (st0 : St) (toks : List String) : St × Option String :=
  let st := { st0 with b := { st0.b with events := [] } }
  match toks with
  | ["cfg", ft, frt, ftc, fet, period, s, stc, delay, dfn, t0] =>
    let c : Cfg := ⟨nat! ft, nat! frt, nat! ftc, nat! fet, int! period, nat! s, nat! stc, int! delay, (if int! dfn == -2 then -1 else int! dfn)⟩   -- -2: a registered delay function that declines, which is the same as none
    ({ st0 with c := c, b := B.new c, now := int! t0 }, none)
  | ["adv", n] => fin { st with now := st.now + int! n } "-"
  | ["rs"] => fin { st with b := record st.c st.b st.now true } "-"
  | ["rf"] => fin { st with b := record st.c st.b st.now false } "-"
  | ["xs"] =>
    let (b, ok) := tryAcquire st.c st.b st.now
    if ok then fin { st with b := record st.c b st.now true false } "T" else fin { st with b := b } "F"
  | ["xf"] =>
    let (b, ok) := tryAcquire st.c st.b st.now
    if ok then fin { st with b := record st.c b st.now false true } "T" else fin { st with b := b } "F"
  | ["try"] => let (b, ok) := tryAcquire st.c st.b st.now; fin { st with b := b } (if ok then "T" else "F")
  | ["open"] => fin { st with b := transition st.c st.b st.now .opened } "-"
  | ["halfopen"] => fin { st with b := transition st.c st.b st.now .halfOpen } "-"
  | ["close"] => fin { st with b := transition st.c st.b st.now .closed } "-"
  | ["probe"] => fin st "-"
  | ["pctcomplement", n] =>
    -- validates the hypothesis `PctComplement` of C03 on the executable rate function for every capacity up to n
    let bad := (List.range (nat! n + 1)).filter (fun m => m != 0 && (List.range (m + 1)).any (fun f => pct f m + pct (m - f) m < 100))
    (st, some (if bad.isEmpty then "ok" else s!"fails-at {bad}"))
  | _ => (st, some "bad-op")

end Driver.Breaker
