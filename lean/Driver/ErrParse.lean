import Failsafe.Basic
/-! Parser for the protocol's error trees and small helpers shared by the driver slices. -/
namespace Driver
open Failsafe

def int! (s : String) : Int := s.toInt?.getD 0
def nat! (s : String) : Nat := s.toNat?.getD 0

/-- parse a (possibly negative) integer prefix -/
def takeNum (cs : List Char) : Int × List Char :=
  let (neg, cs) := match cs with | '-' :: r => (true, r) | _ => (false, cs)
  let ds := cs.takeWhile Char.isDigit
  let rest := cs.dropWhile Char.isDigit
  let n : Int := (String.ofList ds).toNat?.getD 0
  (if neg then -n else n, rest)

def expect (c : Char) (cs : List Char) : Option (List Char) :=
  match cs with | x :: r => if x == c then some r else none | [] => none

/-- recursive descent with fuel (the text length bounds the depth) -/
def parseTree : Nat → List Char → Option (Err × List Char)
  | 0, _ => none
  | fuel + 1, cs =>
    match cs with
    | 'L' :: r =>
      let (id, r) := takeNum r
      match expect ':' r with
      | none => none
      | some r => let (ty, r) := takeNum r; some (.leaf id.toNat ty.toNat, r)
    | 'W' :: r =>
      let (id, r) := takeNum r
      match expect ':' r with
      | none => none
      | some r =>
        let (ty, r) := takeNum r
        match expect '(' r with
        | none => none
        | some r =>
          match parseTree fuel r with
          | none => none
          | some (c, r) => match expect ')' r with | none => none | some r => some (.wrap id.toNat ty.toNat c, r)
    | 'N' :: r =>
      -- a custom aggregate whose `Unwrap() []error` is `[nil, child]`: nil members are skipped, so it behaves as a wrapper of the child
      let (id, r) := takeNum r
      match expect ':' r with
      | none => none
      | some r =>
        let (ty, r) := takeNum r
        match expect '(' r with
        | none => none
        | some r =>
          match parseTree fuel r with
          | none => none
          | some (c, r) => match expect ')' r with | none => none | some r => some (.wrap id.toNat ty.toNat c, r)
    | 'J' :: r =>
      let (id, r) := takeNum r
      match expect ':' r with
      | none => none
      | some r =>
        let (ty, r) := takeNum r
        match expect '(' r with
        | none => none
        | some r =>
          match parseTree fuel r with
          | none => none
          | some (a, r) =>
            match expect ',' r with
            | none => none
            | some r =>
              match parseTree fuel r with
              | none => none
              | some (b, r) => match expect ')' r with | none => none | some r => some (.join id.toNat ty.toNat a b, r)
    | 'X' :: r =>
      match expect '(' r with
      | none => none
      | some r =>
        let (lv, r) := takeNum r
        match expect ',' r with
        | none => none
        | some r =>
          match r with
          | '-' :: ')' :: r => some (.exceededV lv, r)
          | _ =>
            match parseTree fuel r with
            | none => none
            | some (le, r) => match expect ')' r with | none => none | some r => some (.exceededE lv le, r)
    | _ => none

/-- `-` is the nil error; an unparsable tree is reported by the caller -/
def parseErr (s : String) : Option (Option Err) :=
  if s == "-" then some none
  else match parseTree (s.length + 1) s.toList with
    | some (e, []) => some (some e)
    | _ => none

end Driver
