import Driver.Limiter
import Driver.Breaker
import Driver.Classify
import Driver.Compose
import Driver.RetryDelay
import Driver.Adapters
import Driver.Linz
import Driver.Trace
/-!
# Model driver (DIFF tie)

Reads the harness's observation stream on stdin. Every line is `<slice> <op…>` optionally followed by ` => <observed>`;
`case <id>` starts a new case (all slice states are reset). For each line carrying an observation the model's expected
observation is computed with the definitions the theorems are about and compared; disagreements are printed as
`DIFF case=<id> line=<n> | <line> | model=<expected>`. A final `SUMMARY` line reports counts.
-/
open Driver

structure All where
  lim : Limiter.St := {}
  brk : Breaker.St := {}
  cls : Classify.St := {}
  cmp : Compose.St := {}
  rd : RetryDelay.St := {}
  ad : Adapters.St := {}
  lz : Linz.St := {}
  tc : Driver.Trace.St := {}

def splitObs (line : String) : String × Option String :=
  match line.splitOn " => " with
  | [a] => (a, none)
  | a :: rest => (a, some (" => ".intercalate rest))
  | [] => ("", none)

partial def loop (h : IO.FS.Stream) (st : All) (caseId : String) (lineNo cases ops diffs : Nat) (quiet : Bool) : IO (Nat × Nat × Nat × All) := do
  let line ← h.getLine
  if line.isEmpty then return (cases, ops, diffs, st)
  let line := (line.dropRightWhile (fun c => c == '\n' || c == '\r'))
  if line.isEmpty then loop h st caseId (lineNo+1) cases ops diffs quiet else
  let (body, obs) := splitObs line
  let toks := (body.splitOn " ").filter (· ≠ "")
  let handle (st' : All) (exp : Option String) : IO (Nat × Nat × Nat × All) :=
    match obs, exp with
    | some o, some e =>
      if o.trim == e then loop h st' caseId (lineNo+1) cases (ops+1) diffs quiet
      else do
        IO.println s!"DIFF case={caseId} line={lineNo} | {line} | model={e}"
        loop h st' caseId (lineNo+1) cases (ops+1) (diffs+1) quiet
    | none, some e => do
      unless quiet do IO.println s!"{body} => {e}"
      loop h st' caseId (lineNo+1) cases (ops+1) diffs quiet
    | _, none => loop h st' caseId (lineNo+1) cases ops diffs quiet
  match toks with
  | "case" :: id :: _ =>
    -- new case: reset per-case state, keep counters
    loop h { lim := { nontrivial := st.lim.nontrivial }, brk := { nontrivial := st.brk.nontrivial, transitions := st.brk.transitions, refused := st.brk.refused }, cls := { nontrivial := st.cls.nontrivial }, cmp := { nontrivial := st.cmp.nontrivial, runs := st.cmp.runs, events := st.cmp.events, maxStack := st.cmp.maxStack, cancelled := st.cmp.cancelled }, rd := { nontrivial := st.rd.nontrivial, checkedDelays := st.rd.checkedDelays, randomDelays := st.rd.randomDelays }, ad := st.ad, lz := { nontrivial := st.lz.nontrivial, rounds := st.lz.rounds, opsChecked := st.lz.opsChecked, maxCands := st.lz.maxCands }, tc := st.tc } id (lineNo+1) (cases+1) ops diffs quiet
  | "limiter" :: rest =>
    let (l', exp) := Limiter.step st.lim rest
    handle { st with lim := l' } exp
  | "retrydelay" :: rest =>
    let (d', verdict) := RetryDelay.check st.rd rest obs
    let st' := { st with rd := d' }
    match verdict with
    | none => loop h st' caseId (lineNo+1) cases (ops + (if obs.isSome then 1 else 0)) diffs quiet
    | some msg => do
      IO.println s!"DIFF case={caseId} line={lineNo} | {line} | model={msg}"
      loop h st' caseId (lineNo+1) cases (ops+1) (diffs+1) quiet
  | "linz" :: rest =>
    let (z', verdict) := Linz.check st.lz rest obs
    let st' := { st with lz := z' }
    match verdict with
    | none => loop h st' caseId (lineNo+1) cases (ops + (if obs.isSome then 1 else 0)) diffs quiet
    | some msg => do
      IO.println s!"DIFF case={caseId} line={lineNo} | {line} | model={msg}"
      loop h st' caseId (lineNo+1) cases (ops+1) (diffs+1) quiet
  | "trace" :: rest =>
    let (t', verdict) := Driver.Trace.check st.tc rest obs
    let st' := { st with tc := t' }
    match verdict with
    | none => loop h st' caseId (lineNo+1) cases (ops + (if obs.isSome then 1 else 0)) diffs quiet
    | some msg => do
      IO.println s!"DIFF case={caseId} line={lineNo} | {line} | model={msg}"
      loop h st' caseId (lineNo+1) cases (ops+1) (diffs+1) quiet
  | "adapters" :: rest =>
    let (a', verdict) := Adapters.check st.ad rest obs
    let st' := { st with ad := a' }
    match verdict with
    | none => loop h st' caseId (lineNo+1) cases (ops + (if obs.isSome then 1 else 0)) diffs quiet
    | some msg => do
      IO.println s!"DIFF case={caseId} line={lineNo} | {line} | model={msg}"
      loop h st' caseId (lineNo+1) cases (ops+1) (diffs+1) quiet
  | "compose" :: rest =>
    let (c', exp) := Compose.step st.cmp rest
    handle { st with cmp := c' } exp
  | "classify" :: rest =>
    let (c', exp) := Classify.step st.cls rest
    handle { st with cls := c' } exp
  | "breaker" :: rest =>
    let (b', exp) := Breaker.step st.brk rest
    handle { st with brk := b' } exp
  | _ => do
    IO.println s!"DIFF case={caseId} line={lineNo} | {line} | model=unknown-slice"
    loop h st caseId (lineNo+1) cases ops (diffs+1) quiet

def main (args : List String) : IO UInt32 := do
  let stdin ← IO.getStdin
  let (cases, ops, diffs, st) ← loop stdin {} "-" 1 0 0 0 (args.contains "--quiet")
  IO.println s!"SUMMARY cases={cases} ops={ops} diffs={diffs} nontrivial={st.lim.nontrivial + st.brk.nontrivial + st.cls.nontrivial + st.cmp.nontrivial + st.rd.nontrivial + st.ad.nontrivial + st.lz.nontrivial + st.tc.nontrivial} trace_runs={st.tc.traces} trace_events={st.tc.events} trace_max_model_states={st.tc.maxStates} linz_rounds={st.lz.rounds} linz_ops={st.lz.opsChecked} linz_max_candidate_states={st.lz.maxCands} http_runs={st.ad.httpRuns} http_attempts={st.ad.attempts} http_retry_after_waits={st.ad.waited} delays_checked={st.rd.checkedDelays} delays_with_random_part={st.rd.randomDelays} compose_runs={st.cmp.runs} compose_events={st.cmp.events} compose_max_stack={st.cmp.maxStack} compose_cancelled_runs={st.cmp.cancelled} breaker_transitions={st.brk.transitions} breaker_refusals={st.brk.refused}"
  return (if diffs == 0 then 0 else 1)
