import Failsafe.Conc.TraceTimeout
import Failsafe.Conc.TraceFuture
import Failsafe.Conc.TraceHedge
/-!
Line protocol of the `trace` slice (TRACE tie): each line is one real concurrent run; the observation is the totally ordered
list of events user code saw. The verdict is `Failsafe.Conc.Trace.accepts` on the interleaving model — exact by `Trace.accepts_iff`:
a trace is rejected iff **no** interleaving of the model shows it.

  trace timeout <placement> <fn kind> <dur> => see:<c>:<early> fnret:<early> listener:<early> ret:<inner|exceeded>:<early> final:<k>:<c>
  trace future <entry point> <readers> <cancel?> => isdone:<b> closed:<b> listener got cancel …
  trace hedge <maxHedges> <conds> <attempt µs:c>… => hedge enter:<k> finish:<k>:<c> ret:<k> see:<k>:<b>
-/
namespace Driver.Trace
open Failsafe.Conc

structure St where
  traces : Nat := 0
  events : Nat := 0
  nontrivial : Nat := 0      -- timeout: traces in which the listener ran; future: traces with an observation before the listener
  maxStates : Nat := 0

def verdict {σ : Type} (r : Option (List σ)) : Option String × Nat :=
  match r with
  | none => (some "undecided: the silent closure of the model did not converge within the fuel", 0)
  | some [] => (some "rejected: no interleaving of the model shows this sequence of events", 0)
  | some ys => (none, ys.length)

def check (st : St) (toks : List String) (obs : Option String) : St × Option String :=
  match toks, obs with
  | "timeout" :: _, some o =>
    let raw := (o.trim.splitOn " ").filter (· ≠ "")
    let evs := raw.filterMap TraceTimeout.parseEv
    if evs.length != raw.length then (st, some "bad-event") else
    let (v, n) := verdict (Trace.accepts TraceTimeout.osys 40 evs)
    ({ st with traces := st.traces + 1, events := st.events + evs.length, maxStates := max st.maxStates n,
               nontrivial := st.nontrivial + (if evs.any (fun e => match e with | .listener _ => true | _ => false) then 1 else 0) }, v)
  | "future" :: _, some o =>
    let raw := (o.trim.splitOn " ").filter (· ≠ "")
    let evs := raw.filterMap TraceFuture.parseEv
    if evs.length != raw.length then (st, some "bad-event") else
    let (v, n) := verdict (Trace.accepts TraceFuture.osys 40 evs)
    let before := evs.takeWhile (· != .listener)
    ({ st with traces := st.traces + 1, events := st.events + evs.length, maxStates := max st.maxStates n,
               nontrivial := st.nontrivial + (if before.length > 0 && before.length < evs.length then 1 else 0) }, v)
  | "hedge" :: mh :: _, some o =>
    let raw := (o.trim.splitOn " ").filter (· ≠ "")
    let evs := raw.filterMap TraceHedge.parseEv
    if evs.length != raw.length then (st, some "bad-event") else
    let (v, n) := verdict (Trace.accepts (TraceHedge.osys (mh.toNat?.getD 0 + 1)) 40 evs)
    ({ st with traces := st.traces + 1, events := st.events + evs.length, maxStates := max st.maxStates n,
               nontrivial := st.nontrivial + (if evs.any (fun e => match e with | .hedge => true | _ => false) then 1 else 0) }, v)
  | _, none => (st, none)
  | _, _ => (st, some "bad-op")

end Driver.Trace
