import Failsafe.Limiter
/-! Line protocol for the `limiter` slice. The driver executes the very definitions the theorems are about. -/
namespace Driver.Limiter
open Failsafe.Limiter

inductive Kind | smooth (c : SCfg) (s : SSt) | bursty (c : BCfg) (s : BSt) | none

structure St where
  kind : Kind := .none
  now  : Int := 0
  nontrivial : Nat := 0   -- requests that had to wait or were refused

def toInt! (s : String) : Int := s.toInt?.getD 0

/-- returns new state and the expected observation (if the line has one) -/
def step (st : St) (toks : List String) : St × Option String :=
  match toks with
  | ["cfg", "smooth", i] => ({ kind := .smooth ⟨toInt! i⟩ ⟨0⟩, now := 0, nontrivial := st.nontrivial }, none)
  | ["cfg", "smoothp", mx, per] =>
      -- `SmoothBuilder(maxExecutions, period)`: interval = period / maxExecutions (Go's truncating division)
      ({ kind := .smooth ⟨Int.tdiv (toInt! per) (toInt! mx)⟩ ⟨0⟩, now := 0, nontrivial := st.nontrivial }, none)
  | ["cfg", "bursty", pp, per] =>
      ({ kind := .bursty ⟨toInt! pp, toInt! per⟩ ⟨toInt! pp, 0⟩, now := 0, nontrivial := st.nontrivial }, none)
  | ["t", t] => ({ st with now := toInt! t }, none)
  | ["acq", k, mw] =>
    match st.kind with
    | .smooth c s =>
      let r := smoothAcquire c s st.now (toInt! k) (toInt! mw)
      ({ st with kind := .smooth c r.2, nontrivial := st.nontrivial + (if r.1 != 0 then 1 else 0) }, some (toString r.1))
    | .bursty c s =>
      let r := burstyAcquire c s st.now (toInt! k) (toInt! mw)
      ({ st with kind := .bursty c r.2, nontrivial := st.nontrivial + (if r.1 != 0 then 1 else 0) }, some (toString r.1))
    | .none => (st, some "bad-op")
  | ["bacq", k] =>
    -- blocking acquire cancelled 5 ms into its wait: it reserved (the reservation stays) and reports whether it had to wait
    match st.kind with
    | .smooth c s =>
      let r := smoothAcquire c s st.now (toInt! k) (-1)
      ({ st with kind := .smooth c r.2, nontrivial := st.nontrivial + 1 }, some (if r.1 == 0 then "ok" else "canceled"))
    | .bursty c s =>
      let r := burstyAcquire c s st.now (toInt! k) (-1)
      ({ st with kind := .bursty c r.2, nontrivial := st.nontrivial + 1 }, some (if r.1 == 0 then "ok" else "canceled"))
    | .none => (st, some "bad-op")
  | ["try", k] =>
    match st.kind with
    | .smooth c s =>
      let r := smoothAcquire c s st.now (toInt! k) 0
      ({ st with kind := .smooth c r.2, nontrivial := st.nontrivial + (if r.1 != 0 then 1 else 0) }, some (toString (r.1 == 0)))
    | .bursty c s =>
      let r := burstyAcquire c s st.now (toInt! k) 0
      ({ st with kind := .bursty c r.2, nontrivial := st.nontrivial + (if r.1 != 0 then 1 else 0) }, some (toString (r.1 == 0)))
    | .none => (st, some "bad-op")
  | _ => (st, some "bad-op")

end Driver.Limiter
