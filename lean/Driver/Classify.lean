import Failsafe.Classify
import Driver.ErrParse
/-! Line protocol for the `classify` slice. -/
namespace Driver.Classify
open Failsafe Failsafe.Classify

structure St where
  handle : List Reg := []
  abort : List Cond := []
  nontrivial : Nat := 0

def parseConds (s : String) : List Cond :=
  if s == "-" then [] else
  (s.splitOn ",").filterMap fun t =>
    let n := (t.drop 1).toString
    match t.front with
    | 'I' => some (.errIs (nat! n))
    | 'T' => some (.errType (nat! n))
    | 'U' => some (.errType (nat! n))   -- pointer form of the same type target
    | 'R' => some (.result (int! n))
    | 'P' => some (.pred (nat! n))
    | _ => none

/-- builder calls including `E` / `Y`: the error-list calls with an empty target list -/
def parseRegs (s : String) : List Reg :=
  if s == "-" then [] else
  (s.splitOn ",").filterMap fun t =>
    match t.front with
    | 'E' | 'Y' => some .noTargets
    | _ => (parseConds t).head?.map Reg.cond

def b2s (b : Bool) : String := if b then "1" else "0"

def step (st : St) (toks : List String) : St × Option String :=
  match toks with
  | ["cfg", h, a] => ({ st with handle := parseRegs h, abort := parseConds a }, none)
  | ["deep", _, eq] =>
    -- values of any result type compare by deep equality: in the model a value is its contents (target 1; an equal copy is 1,
    -- anything else 2)
    let o : Outcome := ⟨if eq == "eq" then 1 else 2, none⟩
    let f := isFailure [.result 1] o
    let ab := isAbortable [.result 1] o
    (st, some s!"rp={b2s f} ab={b2s ab} cb={b2s f} fb={b2s f} hp={b2s (isCancellable [.result 1] o)}")
  | [op, v, e] =>
    if op != "o" && op != "oh" then (st, some "bad-op") else
    match parseErr e with
    | none => (st, some "bad-tree")
    | some err =>
      let o : Outcome := ⟨int! v, err⟩
      let f := isFailureR st.handle o
      -- the standalone API records (zero value, err) or (val, nil)
      let o2 : Outcome := match err with | some e => ⟨0, some e⟩ | none => ⟨int! v, none⟩
      let fr := isFailureR st.handle o2
      let ab := isAbortable st.abort o
      let rp := if !f then "F0" else if ab then "F1A1" else "F1A0"
      let hp := isCancellable st.abort o
      ({ st with nontrivial := st.nontrivial + (if f || ab then 1 else 0) },
       some s!"fb={b2s f} cb={b2s f} cr={b2s fr} rp={rp} hp={if op == "oh" then b2s hp else "-"}")
  | _ => (st, some "bad-op")

end Driver.Classify
