import Driver.Breaker
import Driver.Limiter
import Failsafe.Conc.Linearize
/-!
Line protocol of the `linz` slice: concurrent histories of one shared breaker / rate limiter are checked for
**linearizability against the sequential model** (the very definitions the C03 / C05 theorems are about): there must be an
order of the operations of each round that respects real time (an operation that returned before another was called comes
first) and in which the model returns every observed result. The set of model states reachable by such orders is carried
from round to round; a sequential probe narrows it. The search is `Failsafe.Conc.Linearize.linearize`, proved sound and
complete for the declarative definition (`not_linearizable_iff`): an empty answer means no valid order exists.
-/
namespace Driver.Linz
open Failsafe.Conc.Linearize (HOp linearize)

inductive M
  | brk (s : Driver.Breaker.St)
  | lim (s : Driver.Limiter.St)
  | bh (cap held : Nat)          -- bulkhead: a counting semaphore (C06)
  | none

structure St where
  cands : List M := []          -- model states consistent with everything observed so far
  nontrivial : Nat := 0
  rounds : Nat := 0
  opsChecked : Nat := 0
  maxCands : Nat := 0

def key : M → String
  | .brk s => toString (repr s.b) ++ "@" ++ toString s.now
  | .lim s => (match s.kind with
      | .smooth _ st => toString (repr st)
      | .bursty _ st => toString (repr st)
      | .none => "") ++ "@" ++ toString s.now
  | .bh c h => s!"{c}/{h}"
  | .none => ""

def dedupe (ms : List M) : List M :=
  (ms.foldl (fun (acc : List (String × M)) m => let k := key m; if acc.any (·.1 == k) then acc else (k, m) :: acc) []).map (·.2)

/-- apply one operation of the protocol to a model state: new state and the result the operation returns -/
def applyOp (m : M) (op : String) : M × String :=
  match m with
  | .brk s =>
    let (s', out) := Driver.Breaker.step s [op]
    let toks := ((out.getD "").splitOn " ")
    (.brk s', toks.getD 1 "-")
  | .lim s =>
    let cs := op.toList
    match cs with
    | 'y' :: k =>
      let (s', out) := Driver.Limiter.step s ["try", String.ofList k]
      (.lim s', out.getD "")
    | 'a' :: rest =>
      let parts := (String.ofList rest).splitOn "m"
      let (s', out) := Driver.Limiter.step s ["acq", parts.getD 0 "1", parts.getD 1 "-1"]
      (.lim s', out.getD "")
    | _ => (m, "bad-op")
  | .bh cap held =>
    -- t / w: an acquisition succeeds iff a permit is free at its linearization point; r: release; n: no-op
    if op == "t" || op == "w" then (if held < cap then (.bh cap (held + 1), "T") else (m, "F"))
    else if op == "r" then (.bh cap (held - 1), "-")
    else (m, "-")
  | .none => (m, "bad-op")

def parseHOp (s : String) : Option HOp :=
  match s.splitOn ":" with
  | [t, c, r, op, res] => some ⟨t.toNat?.getD 0, c.toNat?.getD 0, r.toNat?.getD 0, op, res⟩
  | _ => none

def check (st : St) (toks : List String) (obs : Option String) : St × Option String :=
  match toks with
  | "cfg" :: "breaker" :: rest =>
    let (b, _) := Driver.Breaker.step {} ("cfg" :: rest)
    ({ st with cands := [.brk b] }, none)
  | ["cfg", "bulkhead", cap, _] => ({ st with cands := [.bh (cap.toNat?.getD 0) 0] }, none)
  | "cfg" :: kind :: rest =>
    let (l, _) := Driver.Limiter.step {} ("cfg" :: kind :: rest)
    ({ st with cands := [.lim l] }, none)
  | ["adv", n] =>
    let d : Int := n.toInt?.getD 0
    ({ st with cands := st.cands.map (fun m => match m with
        | .brk s => .brk { s with now := s.now + d }
        | .lim s => .lim { s with now := s.now + d }
        | m => m) }, none)
  | ["probe"] =>
    match obs with
    | none => (st, none)
    | some o =>
      let o8 := " ".intercalate ((o.trim.splitOn " ").take 8)
      let keep := st.cands.filter (fun m => match m with
        | .brk s =>
          let (_, out) := Driver.Breaker.step s ["probe"]
          " ".intercalate (((out.getD "").splitOn " ").take 8) == o8
        | .bh cap held => o.trim == s!"free={cap - held}"
        | _ => true)
      if keep.isEmpty then
        let exp := match st.cands.head? with
          | some (.brk s) => (Driver.Breaker.step s ["probe"]).2.getD ""
          | some (.bh cap held) => s!"free={cap - held}"
          | _ => "?"
        (st, some s!"no linearization so far leads to this status; one candidate gives: {exp}")
      else ({ st with cands := keep }, none)
  | ["round", _] =>
    match obs with
    | none => (st, none)
    | some o =>
      let ops := (o.trim.splitOn " ").filterMap parseHOp
      let next := dedupe (st.cands.flatMap (fun m => linearize applyOp (ops.length + 1) m ops))
      let st := { st with rounds := st.rounds + 1, opsChecked := st.opsChecked + ops.length,
                          nontrivial := st.nontrivial + (if ops.length > 2 then 1 else 0), maxCands := max st.maxCands next.length }
      if next.isEmpty then (st, some "not-linearizable: no real-time-respecting order of this round reproduces the observed results on the sequential model")
      else ({ st with cands := next.take 256 }, none)
  | _ => (st, some "bad-op")

end Driver.Linz
