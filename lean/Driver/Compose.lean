import Failsafe.Exec
import Driver.ErrParse
import Driver.Classify
/-!
Line protocol for the `compose` slice:
  compose br <ft> <frt> <ftc> <fet> <period> <st> <stc> <delay> <t0>      register a breaker instance (ids in order)
  compose bh <cap> | ca | rl smooth <interval> | rl bursty <pp> <period>  register bulkhead / cache / limiter instances
  compose pol retry <m> <retLast 0|1> <handle> <abort> [md] | pol breaker <id> <handle> | pol bulkhead <id> | pol limiter <id>
            | pol fallback v <val> <handle> | pol fallback e <errtree> <handle> | pol cache <id> <key|-> <cacheIf pred|->
            | pol timeout | pol hedge <maxHedges> <cancelOn>
  compose ext <bulkhead id> <k>      hold k permits through the standalone API
  compose adv <ns>                   advance the virtual clock
  compose mute <pos,…>               the policies at these positions are built without any listener (their listener events are not observable)
  compose run <ctxKey|-|''> <script> [x=<fn|sched|pre>:<k>:<ctx|async>]   script = items `val,err[,B|,S][,+ns]` separated by `;` (or `-`; `+ns`: the invocation advances the virtual clock);
            x = the execution is cancelled from inside the k-th function invocation / k-th OnRetryScheduled listener / before it
            starts, through its context or through ExecutionResult.Cancel
    => res <val> <err> verdict=<S|F> inv=<n> att=<a> exe=<e> ret=<r> hed=<h> log=<events> br[..] bh[..] ca[..]
-/
namespace Driver.Compose
open Failsafe Failsafe.Exec Failsafe.Classify

structure St where
  w : World := {}
  ps : List Policy := []
  hasHedge : Bool := false
  nontrivial : Nat := 0
  runs : Nat := 0
  events : Nat := 0
  maxStack : Nat := 0
  md : List Nat := []      -- positions of retry policies with a max duration
  cancelled : Nat := 0     -- runs in which the scripted cancellation fired
  mute : List Nat := []    -- positions whose policy was built without listeners: their listener events are not observable

def parseItem (s : String) : Option Item :=
  match s.splitOn "," with
  | v :: e :: flags =>
    (parseErr e).map fun e =>
      flags.foldl (fun (it : Item) f =>
        if f == "B" then { it with blocks := true }
        else if f == "S" then { it with sleeps := true }
        else if f.startsWith "+" then { it with adv := int! (f.drop 1).toString }
        else it) ⟨int! v, e, false, false, 0⟩
  | _ => none

def parseScript (s : String) : List Item :=
  if s == "-" then [] else (s.splitOn ";").filterMap parseItem

def evStr (hasHedge : Bool) (e : Exec.Event) : String :=
  let nm := match e.seen with | some o => s!"{e.name}[{o.val},{errStr o.err}]" | none => e.name
  if e.name.startsWith "cb[" then s!"{e.name}@{e.pos}"
  else s!"{nm}@{e.pos}:{e.att}/{if hasHedge then "*" else toString e.exe}"

/-- a listener event of a policy (not the wrapped function `fn` / `fnh`, not a fallback function `fb.fn`, not the breaker's instance
listeners `cb…`, not the executor's `ex.…`) -/
def isPolicyListener (n : String) : Bool :=
  n.startsWith "rp." || (n.startsWith "fb.on") || n.startsWith "ca." || n.startsWith "to." || n.startsWith "hp."

def worldStr (w : World) : String :=
  let brs := w.breakers.map fun (_, b) =>
    let m := Breaker.snapshot b.stats
    s!"{b.tag.str}:{m.1} {m.2.1} {m.2.2.1} {m.2.2.2.1} {m.2.2.2.2}"
  let bhs := w.bulk.map fun (cap, held) => s!"{cap - held}"
  let cas := w.caches.map fun es => ",".intercalate ((es.map fun (k, v) => s!"{k}={v}").toArray.qsort (· < ·)).toList
  s!"br[{";".intercalate brs}] bh[{";".intercalate bhs}] ca[{";".intercalate cas}]"

def step (d : St) (toks : List String) : St × Option String :=
  match toks with
  | ["br", ft, frt, ftc, fet, period, st, stc, delay, t0] =>
    let c : Breaker.Cfg := ⟨nat! ft, nat! frt, nat! ftc, nat! fet, int! period, nat! st, nat! stc, int! delay, -1⟩
    ({ d with w := { d.w with breakers := d.w.breakers ++ [(c, Breaker.B.new c)], now := int! t0 } }, none)
  | ["bh", cap] => ({ d with w := { d.w with bulk := d.w.bulk ++ [(nat! cap, 0)] } }, none)
  | ["ca"] => ({ d with w := { d.w with caches := d.w.caches ++ [[]] } }, none)
  | ["rl", "smooth", i] =>
    ({ d with w := { d.w with limiters := d.w.limiters ++ [(.smooth ⟨int! i⟩, .smooth ⟨0⟩)] } }, none)
  | ["rl", "bursty", pp, per] =>
    ({ d with w := { d.w with limiters := d.w.limiters ++ [(.bursty ⟨int! pp, int! per⟩, .bursty ⟨int! pp, 0⟩)] } }, none)
  | ["pol", "retry", m, rl, h, a] =>
    ({ d with ps := d.ps ++ [.retry (int! m) (rl == "1") (Classify.parseConds h) (Classify.parseConds a)] }, none)
  | ["pol", "retry", m, rl, h, a, "md"] =>
    -- configured with a max duration (shorter than any sleeping outcome, longer than everything else)
    ({ d with md := d.md ++ [d.ps.length], ps := d.ps ++ [.retry (int! m) (rl == "1") (Classify.parseConds h) (Classify.parseConds a)] }, none)
  | ["pol", "breaker", id, h] => ({ d with ps := d.ps ++ [.breaker (nat! id) (Classify.parseConds h)] }, none)
  | ["pol", "bulkhead", id] => ({ d with ps := d.ps ++ [.bulkhead (nat! id)] }, none)
  | ["pol", "limiter", id] => ({ d with ps := d.ps ++ [.limiter (nat! id)] }, none)
  | ["pol", "fallback", "v", v, h] => ({ d with ps := d.ps ++ [.fallback (.value (int! v)) (Classify.parseConds h)] }, none)
  | ["pol", "fallback", "e", e, h] =>
    match parseErr e with
    | some (some e) => ({ d with ps := d.ps ++ [.fallback (.error e) (Classify.parseConds h)] }, none)
    | _ => (d, some "bad-pol")
  | ["pol", "timeout"] => ({ d with ps := d.ps ++ [.timeout] }, none)
  | ["pol", "hedge", n, co] => ({ d with ps := d.ps ++ [.hedge (nat! n) (Classify.parseConds co)], hasHedge := true }, none)
  | ["pol", "cache", id, key, cif] =>
    ({ d with ps := d.ps ++ [.cache (nat! id) (if key == "-" then "" else key) (if cif == "-" then [] else (cif.splitOn ",").map (fun x => nat! x))] }, none)
  | ["ext", id, k] =>
    let bulk := d.w.bulk.mapIdx fun i cb => if i == nat! id then (cb.1, nat! k) else cb
    ({ d with w := { d.w with bulk := bulk } }, none)
  | ["adv", n] => ({ d with w := { d.w with now := d.w.now + int! n } }, none)
  | ["mute", ps] => ({ d with mute := d.mute ++ (ps.splitOn ",").map (fun x => nat! x) }, none)
  | op :: ck :: script :: xs =>
    if op != "run" && op != "runa" then (d, some "bad-op") else
    let ctxKey := if ck == "-" then none else if ck == "''" then some "" else some ck
    let r : Run := { w := d.w, script := parseScript script, ctxKey := ctxKey, mdPos := d.md }
    -- optional scripted cancellation point  x=<fn|sched|pre>:<k>:<ctx|async>
    let r := match xs with
      | [x] =>
        match ((x.drop 2).toString).splitOn ":" with
        | [point, k, cause] =>
          let c := if cause == "async" then Err.execCanceled else Err.canceled
          if point == "pre" then { r with ext := some c, cancelCause := c }
          else { r with cancelAt := some (if point == "fn" then "fn" else "rp.onRetryScheduled", nat! k), cancelCause := c }
        | _ => r
      | _ => r
    match execute 400 d.ps r with
    | none => (d, some "diverged")
    | some (res, r) =>
      let verdict := if res.successAll then "S" else "F"
      let nontriv := r.log.length > 4 || res.err.isSome
      ({ d with w := r.w, runs := d.runs + 1, events := d.events + r.log.length, nontrivial := d.nontrivial + (if nontriv then 1 else 0),
                maxStack := max d.maxStack d.ps.length, cancelled := d.cancelled + (if r.ext.isSome then 1 else 0) },
       some (s!"res {res.val} {errStr res.err} verdict={verdict} inv={r.inv} att={r.attempts} exe={r.execs} ret={r.retries} hed={r.hedges} " ++
             s!"log={";".intercalate ((r.log.filter (fun e => !(d.mute.contains e.pos && isPolicyListener e.name))).map (evStr d.hasHedge))} {worldStr r.w}"))
  | _ => (d, some "bad-op")

end Driver.Compose
