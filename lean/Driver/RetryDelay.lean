import Failsafe.Delay
import Driver.ErrParse
/-!
Line protocol for the `retrydelay` slice (real executor through the `VerifDelaySequence` hook, no waiting):
  retrydelay cfg <delay> <maxDelay> <factorNum> <factorDen> <min> <max> <jitter> <jfNum> <jfDen> <maxDuration> <delayFn|-2>
  retrydelay seq <n> <elapsedStep>  => d_0,d_1,…,d_{n-1}        (call k sees Retries() = k and ElapsedTime() = k·elapsedStep)
Deterministic configurations must match the model exactly; with jitter or a random range every observed delay must lie in
the envelope around the model's un-jittered value.
-/
namespace Driver.RetryDelay
open Failsafe.Delay

structure St where
  c : Cfg := {}
  jfNum : Int := 0
  jfDen : Int := 1
  fnUntil : Nat := 0
  nontrivial : Nat := 0
  checkedDelays : Nat := 0
  randomDelays : Nat := 0

def f32 (num den : Int) : Float32 := Float32.ofInt num / Float32.ofInt den

def clampD (c : Cfg) (d elapsed : Int) : Int := adjustForMaxDuration c d elapsed

/-- envelope of the pre-clamp delay around the un-jittered value `d` -/
def envelope (st : St) (d : Int) : Int × Int :=
  let c := st.c
  if d == 0 then (0, 0)
  else if c.jitter != 0 then (d - c.jitter, d + c.jitter)
  else if st.jfNum != 0 then
    -- |d·(1 ± jf)| with float32 rounding of d and of the product: relative 2^-22, plus one ns of truncation
    let spread := (d.natAbs * st.jfNum.natAbs) / st.jfDen.natAbs + d.natAbs / 4000000 + 2
    (d - spread, d + spread)
  else (d, d)

def checkSeq (st : St) (n : Nat) (step : Int) (obs : List Int) : Option String × Nat × Nat :=
  let c := st.c
  let rec go (k : Nat) (fuel : Nat) (last : Int) (obs : List Int) (rnd : Nat) : Option String × Nat :=
    match fuel, obs with
    | 0, [] => (none, rnd)
    | 0, _ => (some "more delays than requested", rnd)
    | _ + 1, [] => (some "fewer delays than requested", rnd)
    | fuel + 1, o :: rest =>
      let elapsed := (k : Int) * step
      -- a delay function that answers for the first `fnUntil` failures only declines (-1) afterwards
      let fnNow : Int := if st.fnUntil != 0 && k ≥ st.fnUntil then -1 else c.delayFn
      let useFn := fnNow != -2 && fnNow != -1
      let ranged := c.delay == 0 && c.delayMin != 0 && c.delayMax != 0 && !useFn
      -- un-jittered value and new backoff state from the model (ranged value unknown: handled by bounds)
      let (d, nl) := if useFn then (fnNow, last) else fixedOrRandom c last k 0
      let (lo, hi) :=
        if ranged then
          let e1 := envelope st c.delayMin
          let e2 := envelope st c.delayMax
          (min e1.1 e2.1, max e1.2 e2.2)
        else envelope st d
      let elo := clampD c lo elapsed
      let ehi := clampD c hi elapsed
      if elo ≤ o && o ≤ ehi then go (k + 1) fuel nl rest (rnd + (if lo != hi then 1 else 0))
      else (some s!"delay {k}: model envelope [{elo},{ehi}] (un-jittered {d}, backoff state {last}, elapsed {elapsed})", rnd)
  let (v, rnd) := go 0 n 0 obs 0
  (v, obs.length, rnd)

/-- returns the new state and `none` if the observation is consistent, else a description of what the model expects -/
def check (st : St) (toks : List String) (obs : Option String) : St × Option String :=
  match toks with
  | ["cfg", d, md, fn, fd, mn, mx, j, jn, jd, mdur, dfn] =>
    ({ st with c := { delay := int! d, maxDelay := int! md, delayFactor := f32 (int! fn) (int! fd), delayMin := int! mn, delayMax := int! mx,
                      jitter := int! j, jitterFactor := f32 (int! jn) (int! jd), maxDuration := int! mdur, delayFn := int! dfn },
               jfNum := int! jn, jfDen := int! jd, fnUntil := 0 }, none)
  | ["cfg", d, md, fn, fd, mn, mx, j, jn, jd, mdur, dfn, untl, _hist] =>
    -- `_hist`: other delay kinds were configured on the builder first; the last setter decides (no effect on the expectation)
    ({ st with c := { delay := int! d, maxDelay := int! md, delayFactor := f32 (int! fn) (int! fd), delayMin := int! mn, delayMax := int! mx,
                      jitter := int! j, jitterFactor := f32 (int! jn) (int! jd), maxDuration := int! mdur, delayFn := int! dfn },
               jfNum := int! jn, jfDen := int! jd, fnUntil := nat! untl }, none)
  | ["cfg", d, md, fn, fd, mn, mx, j, jn, jd, mdur, dfn, untl] =>
    ({ st with c := { delay := int! d, maxDelay := int! md, delayFactor := f32 (int! fn) (int! fd), delayMin := int! mn, delayMax := int! mx,
                      jitter := int! j, jitterFactor := f32 (int! jn) (int! jd), maxDuration := int! mdur, delayFn := int! dfn },
               jfNum := int! jn, jfDen := int! jd, fnUntil := nat! untl }, none)
  | ["seq", n, step] =>
    match obs with
    | none => (st, none)
    | some o =>
      let ds := (o.trim.splitOn ",").filterMap (fun x => if x.isEmpty then none else some (int! x))
      let (v, cnt, rnd) := checkSeq st (nat! n) (int! step) ds
      ({ st with checkedDelays := st.checkedDelays + cnt, randomDelays := st.randomDelays + rnd,
                 nontrivial := st.nontrivial + (if cnt > 1 then 1 else 0) }, v)
  | _ => (st, some "bad-op")

end Driver.RetryDelay
