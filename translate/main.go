// translate: regenerates Lean definitions (GEN) from /repo's current Go source.
//
// A deliberately tiny imperative subset of Go is translated in continuation style into fully parenthesised
// `let`-terms. The committed schema (kernels.json) names, per kernel, the Go identity (file, receiver, function), the
// Lean signature, the selector -> Lean expression map and the call map; everything else comes from the source.
// A kernel that can no longer be translated is reported in status.json and omitted from the output, which makes the
// corresponding Tie equality fail to check (a broken obligation, never a silent skip).
package main

import (
	"encoding/json"
	"flag"
	"fmt"
	"go/ast"
	"go/parser"
	"go/token"
	"os"
	"path/filepath"
	"sort"
	"strings"
)

type Kernel struct {
	ID      string            `json:"id"`
	File    string            `json:"file"`
	Recv    string            `json:"recv"` // receiver type name ("" = plain function)
	Func    string            `json:"func"`
	Lean    string            `json:"lean"`   // Lean def name
	Sig     string            `json:"sig"`    // Lean binders and result type
	Ret     string            `json:"ret"`    // "val_state" | "val" | "state"
	State   string            `json:"state"`  // name of the Lean state variable ("s")
	Fields  map[string]string `json:"fields"` // Go selector path -> Lean expr; "!x" prefix = assignable state field x
	Calls   map[string]string `json:"calls"`  // Go callee text -> Lean function, "$ident" = replace call by ident, "$id" = identity on arg 0
	Idents  map[string]string `json:"idents"` // Go identifier -> Lean expr (parameters renamed, constants)
	Zero    map[string]string `json:"zero"`   // var decl name -> Lean zero literal with type, default "(0 : Int)"
	Drop    []string          `json:"drop"`   // statement prefixes (callee text) that are dropped, e.g. lock calls
	Module  string            `json:"module"` // output module (file name without .lean) under Generated/
	Nat     bool              `json:"nat"`      // unsigned arithmetic: / and % are Nat division (Go uint semantics), not Int.tdiv
	FloatOp bool              `json:"floatop"`  // arithmetic is on floats: / is float division
	RetVar  string            `json:"retvar"`   // return this variable instead of translating the return expression
	Closure bool              `json:"closure"`  // translate the body of the first function literal inside the function
	Pairs   map[string][]string `json:"pairs"`  // `v, ok := <expr>` (type assertion, map lookup, two-valued call): expr text -> [Lean value, Lean ok/err]
	Composites map[string][]string `json:"composites"` // composite literal type text -> [Lean prefix, Lean suffix]; keyed fields become `f := e` via CompFields
	CompFields map[string]string   `json:"compfields"` // Go field name of a composite literal -> Lean field name
	LoopBody   bool                `json:"loopbody"`   // translate the body of the first `for` statement: falling off its end is the kernel's "continue" value (Final)
	Final      string              `json:"final"`      // the value when the statement list ends without a return (default: the state / ((), state))
	Returns    map[string]string   `json:"returns"`    // return expression text -> Lean value (e.g. a nullable pointer that is known non-nil at this return)
	SelectAs   string              `json:"selectas"`   // a `select` statement (a wait) becomes `state := <this expression>`
	// Calls values: "f" pure call; "$x" replace by x; "$id" identity on arg 0; "!f" statement `s := f s args`; "!!f" statement `s := f s` (arguments
	// are event literals, ignored); "&f|v" a call with a side effect used inside a condition: `s := f s args` is hoisted in front of the
	// `if` and the call's value is the Lean expression v (evaluated on the updated state)
}

type Schema struct {
	Modules map[string]struct {
		Imports []string `json:"imports"`
		Open    []string `json:"open"`
		Prelude []string `json:"prelude"`
	} `json:"modules"`
	Kernels []Kernel `json:"kernels"`
}

var fset = token.NewFileSet()

type tr struct{ k Kernel }

func exprText(e ast.Expr) string {
	switch x := e.(type) {
	case *ast.Ident:
		return x.Name
	case *ast.SelectorExpr:
		return exprText(x.X) + "." + x.Sel.Name
	case *ast.BasicLit:
		return x.Value
	case *ast.CallExpr:
		return exprText(x.Fun) + "(…)"
	case *ast.ParenExpr:
		return "(" + exprText(x.X) + ")"
	case *ast.BinaryExpr:
		return exprText(x.X) + x.Op.String() + exprText(x.Y)
	case *ast.StarExpr:
		return "*" + exprText(x.X)
	case *ast.IndexExpr:
		return exprText(x.X)
	case *ast.UnaryExpr:
		return x.Op.String() + exprText(x.X)
	case *ast.TypeAssertExpr:
		return exprText(x.X) + ".(" + exprText(x.Type) + ")"
	}
	return fmt.Sprintf("<%T>", e)
}

// pairKey is the schema key of the right-hand side of a two-valued assignment
func pairKey(e ast.Expr) string {
	if ix, ok := e.(*ast.IndexExpr); ok {
		return exprText(ix.X) + "[" + exprText(ix.Index) + "]"
	}
	return exprText(e)
}

func (t *tr) field(path string) (string, bool) {
	l, ok := t.k.Fields[path]
	return l, ok
}

func (t *tr) expr(e ast.Expr) string {
	switch x := e.(type) {
	case *ast.BasicLit:
		if x.Kind == token.FLOAT {
			return "(" + x.Value + " : Float)"
		}
		return x.Value
	case *ast.Ident:
		if l, ok := t.k.Idents[x.Name]; ok {
			return l
		}
		return x.Name
	case *ast.ParenExpr:
		return "(" + t.expr(x.X) + ")"
	case *ast.UnaryExpr:
		switch x.Op {
		case token.SUB:
			return "(-" + t.expr(x.X) + ")"
		case token.NOT:
			return "(!" + t.expr(x.X) + ")"
		case token.AND: // &x: values are immutable in the model
			return t.expr(x.X)
		}
	case *ast.StarExpr: // *p: dereference is the identity on values
		return t.expr(x.X)
	case *ast.SelectorExpr:
		path := exprText(x)
		if l, ok := t.field(path); ok {
			return strings.TrimPrefix(l, "!")
		}
		panic("unmapped selector " + path)
	case *ast.BinaryExpr:
		a, b := t.expr(x.X), t.expr(x.Y)
		switch x.Op {
		case token.ADD, token.SUB, token.MUL:
			return fmt.Sprintf("(%s %s %s)", a, x.Op, b)
		case token.QUO:
			if t.k.Nat || t.k.FloatOp {
				return fmt.Sprintf("(%s / %s)", a, b)
			}
			return fmt.Sprintf("(goDiv %s %s)", a, b)
		case token.REM:
			if t.k.Nat {
				return fmt.Sprintf("(%s %% %s)", a, b)
			}
			return fmt.Sprintf("(goMod %s %s)", a, b)
		case token.LSS, token.GTR, token.LEQ, token.GEQ:
			return fmt.Sprintf("(decide (%s %s %s))", a, map[token.Token]string{token.LSS: "<", token.GTR: ">", token.LEQ: "≤", token.GEQ: "≥"}[x.Op], b)
		case token.EQL:
			return fmt.Sprintf("(%s == %s)", a, b)
		case token.NEQ:
			return fmt.Sprintf("(%s != %s)", a, b)
		case token.LAND:
			return fmt.Sprintf("(%s && %s)", a, b)
		case token.LOR:
			return fmt.Sprintf("(%s || %s)", a, b)
		}
	case *ast.TypeAssertExpr: // x.(T): values are untyped in the model
		return t.expr(x.X)
	case *ast.CompositeLit:
		ty := exprText(x.Type)
		pr, ok := t.k.Composites[ty]
		if !ok || len(pr) != 2 {
			panic("unmapped composite literal " + ty)
		}
		fs := []string{}
		for _, el := range x.Elts {
			kv, ok := el.(*ast.KeyValueExpr)
			if !ok {
				panic("positional composite literal " + ty)
			}
			name := exprText(kv.Key)
			lf, ok := t.k.CompFields[name]
			if !ok {
				panic("unmapped composite field " + ty + "." + name)
			}
			fs = append(fs, lf+" := "+t.expr(kv.Value))
		}
		return "(" + pr[0] + strings.Join(fs, ", ") + pr[1] + ")"
	case *ast.CallExpr:
		fn := exprText(x.Fun)
		if l, ok := t.k.Calls[fn]; ok {
			if strings.HasPrefix(l, "&") {
				parts := strings.SplitN(strings.TrimLeft(l, "&"), "|", 2)
				if len(parts) != 2 {
					panic("malformed effectful call mapping " + l)
				}
				return "(" + parts[1] + ")"
			}
			if strings.HasPrefix(l, "$id") {
				return t.expr(x.Args[0])
			}
			if strings.HasPrefix(l, "$") {
				return strings.TrimPrefix(l, "$")
			}
			args := []string{}
			for _, a := range x.Args {
				args = append(args, t.expr(a))
			}
			if len(args) == 0 {
				return l
			}
			return "(" + l + " " + strings.Join(args, " ") + ")"
		}
		panic("unmapped call " + fn)
	}
	panic(fmt.Sprintf("unsupported expr %T %s", e, exprText(e)))
}

// assigned collects identifiers / state assigned in a block; hasRet reports an early return.
func (t *tr) assigned(ss []ast.Stmt, set map[string]bool) (hasRet bool) {
	for _, s := range ss {
		switch x := s.(type) {
		case *ast.AssignStmt:
			for _, r := range x.Rhs {
				if t.hasEffect(r) {
					set[t.k.State] = true
				}
				if pr, ok := t.k.Pairs[pairKey(r)]; ok && len(pr) == 3 {
					set[t.k.State] = true
				}
			}
			if len(x.Lhs) == 2 && len(x.Rhs) == 1 && x.Tok == token.ASSIGN {
				if c, ok := x.Rhs[0].(*ast.CallExpr); ok && t.dropped(exprText(c.Fun)) {
					continue
				}
			}
			for _, lhs := range x.Lhs {
				if id, ok := lhs.(*ast.Ident); ok {
					if x.Tok != token.DEFINE {
						set[id.Name] = true
					}
				} else {
					set[t.k.State] = true
				}
			}
		case *ast.IncDecStmt:
			if id, ok := x.X.(*ast.Ident); ok {
				set[id.Name] = true
			} else {
				set[t.k.State] = true
			}
		case *ast.ExprStmt:
			if c, ok := x.X.(*ast.CallExpr); ok {
				if l, ok := t.k.Calls[exprText(c.Fun)]; ok && strings.HasPrefix(l, "!") {
					set[t.k.State] = true
				}
			}
		case *ast.ReturnStmt:
			hasRet = true
		case *ast.SelectStmt:
			set[t.k.State] = true
		case *ast.IfStmt:
			if x.Init != nil && t.assigned([]ast.Stmt{x.Init}, set) {
				hasRet = true
			}
			if t.assigned(x.Body.List, set) {
				hasRet = true
			}
			switch eb := x.Else.(type) {
			case *ast.BlockStmt:
				if t.assigned(eb.List, set) {
					hasRet = true
				}
			case *ast.IfStmt:
				if t.assigned([]ast.Stmt{eb}, set) {
					hasRet = true
				}
			}
		}
	}
	return
}

func sortedKeys(m map[string]bool) []string {
	ks := []string{}
	for k := range m {
		ks = append(ks, k)
	}
	sort.Strings(ks)
	return ks
}

func (t *tr) dropped(fn string) bool {
	for _, d := range t.k.Drop {
		if fn == d || strings.HasSuffix(fn, d) {
			return true
		}
	}
	return false
}

func (t *tr) assign(lhs ast.Expr, rhs string, ind string) string {
	if id, ok := lhs.(*ast.Ident); ok {
		name := id.Name
		if l, ok := t.k.Idents[name]; ok {
			name = l
		}
		return fmt.Sprintf("%slet %s := %s;\n", ind, name, rhs)
	}
	path := exprText(lhs)
	l, ok := t.field(path)
	if !ok || !strings.HasPrefix(l, "!") {
		panic("assignment to non-state selector " + path)
	}
	f := strings.TrimPrefix(l, "!"+t.k.State+".")
	return fmt.Sprintf("%slet %s := { %s with %s := %s };\n", ind, t.k.State, t.k.State, f, rhs)
}

func (t *tr) final() string {
	if t.k.Final != "" {
		return t.k.Final
	}
	switch t.k.Ret {
	case "state":
		return t.k.State
	case "val_state":
		return "((), " + t.k.State + ")"
	}
	panic("missing return in value kernel")
}

func (t *tr) ret(x *ast.ReturnStmt, ind string) string {
	if t.k.RetVar != "" {
		if t.k.Ret == "val" {
			return ind + t.k.RetVar + "\n"
		}
		return fmt.Sprintf("%s(%s, %s)\n", ind, t.k.RetVar, t.k.State)
	}
	switch t.k.Ret {
	case "state":
		return ind + t.k.State + "\n"
	case "val":
		if len(x.Results) > 1 {
			rs := []string{}
			for _, r := range x.Results {
				rs = append(rs, t.expr(r))
			}
			return fmt.Sprintf("%s(%s)\n", ind, strings.Join(rs, ", "))
		}
		return fmt.Sprintf("%s%s\n", ind, t.expr(x.Results[0]))
	default:
		if len(x.Results) == 0 {
			return ind + "((), " + t.k.State + ")\n"
		}
		if m, ok := t.k.Returns[exprText(x.Results[0])]; ok {
			return fmt.Sprintf("%s(%s, %s)\n", ind, m, t.k.State)
		}
		return fmt.Sprintf("%s(%s, %s)\n", ind, t.expr(x.Results[0]), t.k.State)
	}
}

// hoist returns the state updates of the calls with a side effect (schema "&f|v") that occur inside e; the state before the
// update stays available as `<state>_pre` for the value expression v
func (t *tr) hoist(e ast.Expr, ind string) string {
	pre := ""
	ast.Inspect(e, func(n ast.Node) bool {
		if ce, ok := n.(*ast.CallExpr); ok {
			if l, ok := t.k.Calls[exprText(ce.Fun)]; ok && strings.HasPrefix(l, "&") {
				noArgs := strings.HasPrefix(l, "&&") // "&&f|v": the call's arguments are not modelled
				parts := strings.SplitN(strings.TrimLeft(l, "&"), "|", 2)
				args := []string{}
				for _, a := range ce.Args {
					if !noArgs {
						args = append(args, t.expr(a))
					}
				}
				pre += fmt.Sprintf("%slet %s_pre := %s;\n%slet %s := (%s %s);\n", ind, t.k.State, t.k.State, ind, t.k.State, parts[0], strings.Join(append([]string{t.k.State + "_pre"}, args...), " "))
			}
		}
		return true
	})
	return pre
}

func (t *tr) hasEffect(e ast.Expr) bool {
	found := false
	ast.Inspect(e, func(n ast.Node) bool {
		if ce, ok := n.(*ast.CallExpr); ok {
			if l, ok := t.k.Calls[exprText(ce.Fun)]; ok && strings.HasPrefix(l, "&") {
				found = true
			}
		}
		return true
	})
	return found
}

// stmts translates a statement list followed by continuation k (Lean text producing the final value).
func (t *tr) stmts(ss []ast.Stmt, k func() string, ind string) string {
	if len(ss) == 0 {
		return k()
	}
	s, rest := ss[0], ss[1:]
	cont := func() string { return t.stmts(rest, k, ind) }
	switch x := s.(type) {
	case *ast.ExprStmt:
		if c, ok := x.X.(*ast.CallExpr); ok {
			fn := exprText(c.Fun)
			if t.dropped(fn) {
				return cont()
			}
			// state-transforming call: calls map value "!f" means  s := f s args
			if l, ok := t.k.Calls[fn]; ok && strings.HasPrefix(l, "!!") {
				return fmt.Sprintf("%slet %s := (%s %s);\n", ind, t.k.State, strings.TrimPrefix(l, "!!"), t.k.State) + cont()
			}
			if l, ok := t.k.Calls[fn]; ok && strings.HasPrefix(l, "!") {
				args := []string{}
				for _, a := range c.Args {
					args = append(args, t.expr(a))
				}
				return fmt.Sprintf("%slet %s := (%s %s);\n", ind, t.k.State, strings.TrimPrefix(l, "!"), strings.Join(append([]string{t.k.State}, args...), " ")) + cont()
			}
			panic("unmapped statement call " + fn)
		}
	case *ast.SelectStmt:
		if t.k.SelectAs != "" {
			return fmt.Sprintf("%slet %s := (%s);\n", ind, t.k.State, t.k.SelectAs) + cont()
		}
	case *ast.DeferStmt:
		if t.dropped(exprText(x.Call.Fun)) {
			return cont()
		}
	case *ast.DeclStmt: // var x T
		gd := x.Decl.(*ast.GenDecl)
		out := ""
		for _, sp := range gd.Specs {
			vs := sp.(*ast.ValueSpec)
			for i, n := range vs.Names {
				z := "(0 : Int)"
				if zz, ok := t.k.Zero[n.Name]; ok {
					z = zz
				}
				if len(vs.Values) > i {
					z = t.expr(vs.Values[i])
				}
				out += fmt.Sprintf("%slet %s := %s;\n", ind, n.Name, z)
			}
		}
		return out + cont()
	case *ast.IncDecStmt:
		op := "+"
		if x.Tok == token.DEC {
			op = "-"
		}
		return t.assign(x.X, fmt.Sprintf("(%s %s 1)", t.expr(x.X), op), ind) + cont()
	case *ast.AssignStmt:
		if len(x.Lhs) == 2 && len(x.Rhs) == 1 && x.Tok == token.ASSIGN {
			// a, b = f(…) where f is in the drop list (e.g. deriving a child context): not modelled
			if c, ok := x.Rhs[0].(*ast.CallExpr); ok && t.dropped(exprText(c.Fun)) {
				return cont()
			}
		}
		if len(x.Lhs) == 2 && len(x.Rhs) == 1 && x.Tok == token.DEFINE {
			// v, ok := <type assertion | map lookup | two-valued call>, mapped by the schema; an optional third element names a
			// state update the call performs: `s := f s` follows the two bindings
			pr, ok := t.k.Pairs[pairKey(x.Rhs[0])]
			if !ok || (len(pr) != 2 && len(pr) != 3) {
				panic("unmapped two-valued assignment " + pairKey(x.Rhs[0]))
			}
			if len(pr) == 3 {
				out := ""
				for i, lhs := range x.Lhs {
					if id, ok := lhs.(*ast.Ident); ok && id.Name != "_" {
						out += fmt.Sprintf("%slet %s := %s;\n", ind, id.Name, pr[i])
					}
				}
				return out + fmt.Sprintf("%slet %s := (%s %s);\n", ind, t.k.State, pr[2], t.k.State) + cont()
			}
			out := ""
			for i, lhs := range x.Lhs {
				if id, ok := lhs.(*ast.Ident); ok && id.Name != "_" {
					out += fmt.Sprintf("%slet %s := %s;\n", ind, id.Name, pr[i])
				}
			}
			return out + cont()
		}
		if len(x.Lhs) != 1 || len(x.Rhs) != 1 {
			panic("multi-assignment unsupported")
		}
		lhs := x.Lhs[0]
		hoisted := t.hoist(x.Rhs[0], ind)
		rhs := t.expr(x.Rhs[0])
		if hoisted != "" {
			return hoisted + t.assign(lhs, rhs, ind) + cont()
		}
		switch x.Tok {
		case token.SUB_ASSIGN:
			rhs = fmt.Sprintf("(%s - %s)", t.expr(lhs), rhs)
		case token.ADD_ASSIGN:
			rhs = fmt.Sprintf("(%s + %s)", t.expr(lhs), rhs)
		case token.ASSIGN, token.DEFINE:
		default:
			panic("unsupported assignment operator " + x.Tok.String())
		}
		return t.assign(lhs, rhs, ind) + cont()
	case *ast.ReturnStmt:
		pre := ""
		for _, r := range x.Results {
			pre += t.hoist(r, ind)
		}
		return pre + t.ret(x, ind)
	case *ast.IfStmt:
		pre := ""
		if x.Init != nil {
			// if x := e; cond { … }  — the init is hoisted (names are fresh in the kernels translated)
			return t.stmts(append([]ast.Stmt{x.Init, &ast.IfStmt{If: x.If, Cond: x.Cond, Body: x.Body, Else: x.Else}}, rest...), k, ind)
		}
		// calls with a side effect inside the condition (schema "&f|v"): the state update is hoisted in front of the `if`
		pre += t.hoist(x.Cond, ind)
		c := t.expr(x.Cond)
		var elseList []ast.Stmt
		switch eb := x.Else.(type) {
		case *ast.BlockStmt:
			elseList = eb.List
		case *ast.IfStmt:
			elseList = []ast.Stmt{eb}
		}
		set := map[string]bool{}
		hasRet := t.assigned(x.Body.List, set)
		if t.assigned(elseList, set) {
			hasRet = true
		}
		if !hasRet {
			vars := sortedKeys(set)
			if len(vars) == 0 {
				return pre + cont()
			}
			tup := "(" + strings.Join(vars, ", ") + ")"
			if len(vars) == 1 {
				tup = vars[0]
			}
			join := func() string { return ind + "  " + tup + "\n" }
			thenS := t.stmts(x.Body.List, join, ind+"  ")
			elseS := t.stmts(elseList, join, ind+"  ")
			return pre + fmt.Sprintf("%slet %s := (if %s then (\n%s%s) else (\n%s%s));\n", ind, tup, c, thenS, ind, elseS, ind) + cont()
		}
		thenS := t.stmts(x.Body.List, cont, ind+"  ")
		elseS := t.stmts(elseList, cont, ind+"  ")
		return pre + fmt.Sprintf("%s(if %s then (\n%s%s) else (\n%s%s))\n", ind, c, thenS, ind, elseS, ind)
	}
	panic(fmt.Sprintf("unsupported stmt %T at %s", s, fset.Position(s.Pos())))
}

func recvName(fd *ast.FuncDecl) string {
	if fd.Recv == nil || len(fd.Recv.List) == 0 {
		return ""
	}
	t := fd.Recv.List[0].Type
	for {
		switch x := t.(type) {
		case *ast.StarExpr:
			t = x.X
		case *ast.IndexExpr:
			t = x.X
		case *ast.IndexListExpr:
			t = x.X
		case *ast.Ident:
			return x.Name
		default:
			return ""
		}
	}
}

func translate(repo string, k Kernel) (out string, err error) {
	defer func() {
		if r := recover(); r != nil {
			err = fmt.Errorf("%v", r)
		}
	}()
	if k.State == "" {
		k.State = "s"
	}
	f, perr := parser.ParseFile(fset, filepath.Join(repo, k.File), nil, 0)
	if perr != nil {
		return "", perr
	}
	for _, d := range f.Decls {
		fd, ok := d.(*ast.FuncDecl)
		if !ok || fd.Name.Name != k.Func || recvName(fd) != k.Recv {
			continue
		}
		t := &tr{k: k}
		list := fd.Body.List
		if k.Closure {
			var lit *ast.FuncLit
			ast.Inspect(fd.Body, func(n ast.Node) bool {
				if fl, ok := n.(*ast.FuncLit); ok && lit == nil {
					lit = fl
					return false
				}
				return true
			})
			if lit == nil {
				return "", fmt.Errorf("no function literal in %s.%s", k.Recv, k.Func)
			}
			list = lit.Body.List
		}
		if k.LoopBody {
			var loop *ast.ForStmt
			for _, st := range list {
				if f, ok := st.(*ast.ForStmt); ok && loop == nil {
					loop = f
				}
			}
			if loop == nil {
				return "", fmt.Errorf("no for statement in %s.%s", k.Recv, k.Func)
			}
			list = loop.Body.List
		}
		body := t.stmts(list, func() string { return "  " + t.final() + "\n" }, "  ")
		return fmt.Sprintf("/-- generated from %s: %s.%s -/\ndef %s %s :=\n%s", k.File, k.Recv, k.Func, k.Lean, k.Sig, body), nil
	}
	return "", fmt.Errorf("function %s.%s not found in %s", k.Recv, k.Func, k.File)
}

func main() {
	repo := flag.String("repo", "/repo", "repository root")
	schemaPath := flag.String("schema", "kernels.json", "kernel schema")
	outDir := flag.String("out", "", "output directory for Generated/*.lean")
	factsOnly := flag.Bool("facts-only", false, "only emit facts")
	flag.Parse()
	raw, err := os.ReadFile(*schemaPath)
	if err != nil {
		fmt.Fprintln(os.Stderr, err)
		os.Exit(2)
	}
	var sc Schema
	if err := json.Unmarshal(raw, &sc); err != nil {
		fmt.Fprintln(os.Stderr, "schema:", err)
		os.Exit(2)
	}
	status := map[string]string{}
	if !*factsOnly {
		byMod := map[string][]string{}
		for _, k := range sc.Kernels {
			out, err := translate(*repo, k)
			if err != nil {
				status[k.ID] = "FAILED: " + err.Error()
				byMod[k.Module] = append(byMod[k.Module], fmt.Sprintf("-- kernel %s could not be translated: %s\n", k.ID, strings.ReplaceAll(err.Error(), "\n", " ")))
				continue
			}
			status[k.ID] = "ok"
			byMod[k.Module] = append(byMod[k.Module], out)
		}
		for mod, m := range sc.Modules {
			var sb strings.Builder
			sb.WriteString("-- GENERATED by /verif/translate from /repo on every check; do not edit, not committed\n")
			for _, im := range m.Imports {
				sb.WriteString("import " + im + "\n")
			}
			sb.WriteString("set_option linter.unusedVariables false\n")
			sb.WriteString("namespace Failsafe.Generated." + mod + "\n")
			for _, o := range m.Open {
				sb.WriteString("open " + o + "\n")
			}
			for _, p := range m.Prelude {
				sb.WriteString(p + "\n")
			}
			for _, d := range byMod[mod] {
				sb.WriteString("\n" + d)
			}
			sb.WriteString("\nend Failsafe.Generated." + mod + "\n")
			if err := os.WriteFile(filepath.Join(*outDir, mod+".lean"), []byte(sb.String()), 0o644); err != nil {
				fmt.Fprintln(os.Stderr, err)
				os.Exit(2)
			}
		}
	}
	facts, ferr := extractFacts(*repo)
	if ferr != nil {
		status["facts"] = "FAILED: " + ferr.Error()
	} else {
		status["facts"] = "ok"
	}
	if facts != "" {
		if err := os.WriteFile(filepath.Join(*outDir, "Facts.lean"), []byte(facts), 0o644); err != nil {
			fmt.Fprintln(os.Stderr, err)
			os.Exit(2)
		}
		os.WriteFile(filepath.Join(*outDir, "facts.json"), factsJSON, 0o644)
	}
	js, _ := json.MarshalIndent(status, "", " ")
	os.WriteFile(filepath.Join(*outDir, "status.json"), js, 0o644)
	fmt.Println(string(js))
}
