package main

// FACTS: structural facts of /repo's current source, extracted syntactically with go/ast.
//
// Output 1: Generated/Facts.lean  — the small facts that are *inputs* of Lean models (booleans, numbers, short lists).
// Output 2: Generated/facts.json  — all facts, including ordered effect lists of the policy executors, select-branch
//                                    tables, lock discipline, spawn/timer sites. ./check compares the ones a theorem
//                                    rests on with the committed expectations in translate/facts_expected.json.

import (
	"encoding/json"
	"fmt"
	"go/ast"
	"go/parser"
	"go/printer"
	"os"
	"path/filepath"
	"sort"
	"strings"
)

func srcOf(n ast.Node) string {
	var sb strings.Builder
	printer.Fprint(&sb, fset, n)
	return strings.Join(strings.Fields(sb.String()), " ")
}

type factx struct {
	repo  string
	files map[string]*ast.File
	errs  []string
}

func (fx *factx) file(rel string) *ast.File {
	if f, ok := fx.files[rel]; ok {
		return f
	}
	f, err := parser.ParseFile(fset, filepath.Join(fx.repo, rel), nil, 0)
	if err != nil {
		fx.errs = append(fx.errs, err.Error())
		f = &ast.File{}
	}
	fx.files[rel] = f
	return f
}

func (fx *factx) fn(rel, recv, name string) *ast.FuncDecl {
	for _, d := range fx.file(rel).Decls {
		if fd, ok := d.(*ast.FuncDecl); ok && fd.Name.Name == name && recvName(fd) == recv {
			return fd
		}
	}
	fx.errs = append(fx.errs, fmt.Sprintf("function %s.%s not found in %s", recv, name, rel))
	return nil
}

// selectTable: per select statement, per branch: (comm kind, what the branch returns)
func selectTable(fd *ast.FuncDecl) []string {
	var out []string
	if fd == nil {
		return out
	}
	idx := 0
	ast.Inspect(fd.Body, func(n ast.Node) bool {
		sel, ok := n.(*ast.SelectStmt)
		if !ok {
			return true
		}
		for _, c := range sel.Body.List {
			cc := c.(*ast.CommClause)
			kind := "default"
			if cc.Comm != nil {
				s := srcOf(cc.Comm)
				switch {
				case strings.Contains(s, "semaphore <-"):
					kind = "sendSemaphore"
				case strings.Contains(s, "Done()") || strings.Contains(s, "Canceled()"):
					kind = "cancel"
				case strings.Contains(s, "timer.C"):
					kind = "timer"
				case strings.Contains(s, "<-resultChan"):
					kind = "recvResult"
				default:
					kind = "other:" + s
				}
			}
			ret := "falls"
			for _, st := range cc.Body {
				if r, ok := st.(*ast.ReturnStmt); ok && len(r.Results) > 0 {
					ret = "returns " + srcOf(r.Results[len(r.Results)-1])
				}
				if ifs, ok := st.(*ast.IfStmt); ok {
					for _, st2 := range ifs.Body.List {
						if r, ok := st2.(*ast.ReturnStmt); ok && len(r.Results) > 0 {
							ret = "if(" + srcOf(ifs.Cond) + ") returns " + srcOf(r.Results[len(r.Results)-1])
						}
					}
				}
			}
			out = append(out, fmt.Sprintf("select%d %s -> %s", idx, kind, ret))
		}
		idx++
		return true
	})
	return out
}

// effects: ordered calls / returns / go statements in a body, each prefixed by the guards it is nested under
func effects(n ast.Node, guard string, out *[]string) {
	if n == nil {
		return
	}
	ast.Inspect(n, func(x ast.Node) bool {
		switch v := x.(type) {
		case *ast.IfStmt:
			if v.Init != nil {
				effects(v.Init, guard, out)
			}
			effects(v.Cond, guard, out)
			effects(v.Body, guard+"["+srcOf(v.Cond)+"]", out)
			if v.Else != nil {
				effects(v.Else, guard+"[!"+srcOf(v.Cond)+"]", out)
			}
			return false
		case *ast.FuncLit:
			*out = append(*out, guard+"funclit{")
			effects(v.Body, guard+"  ", out)
			*out = append(*out, guard+"}")
			return false
		case *ast.GoStmt:
			*out = append(*out, guard+"GO")
		case *ast.ForStmt:
			*out = append(*out, guard+"for{")
			effects(v.Body, guard+"  ", out)
			*out = append(*out, guard+"}")
			return false
		case *ast.SelectStmt:
			*out = append(*out, guard+"select")
		case *ast.ReturnStmt:
			for _, r := range v.Results {
				effects(r, guard, out)
			}
			rs := []string{}
			for _, r := range v.Results {
				if _, isCall := r.(*ast.CallExpr); isCall {
					rs = append(rs, "<call>")
				} else if _, isLit := r.(*ast.FuncLit); isLit {
					rs = append(rs, "<funclit>")
				} else {
					rs = append(rs, srcOf(r))
				}
			}
			*out = append(*out, guard+"return "+strings.Join(rs, ","))
			return false
		case *ast.CallExpr:
			fn := srcOf(v.Fun)
			for _, a := range v.Args {
				effects(a, guard, out)
			}
			if fl, ok := v.Fun.(*ast.FuncLit); ok {
				effects(fl, guard, out)
			}
			if fn == "time.NewTimer" || fn == "time.AfterFunc" || fn == "time.Sleep" {
				fn += "(" + srcOf(v.Args[0]) + ")"
			}
			*out = append(*out, guard+"call "+fn)
			return false
		}
		return true
	})
}

func (fx *factx) effectsOf(rel, recv, name string) []string {
	out := []string{}
	if fd := fx.fn(rel, recv, name); fd != nil {
		effects(fd.Body, "", &out)
	}
	return out
}

// locked: does the method start with <x>.Lock() followed by defer <x>.Unlock()?
func lockedMethod(fd *ast.FuncDecl) string {
	if fd == nil || len(fd.Body.List) < 2 {
		return "none"
	}
	a, ok1 := fd.Body.List[0].(*ast.ExprStmt)
	b, ok2 := fd.Body.List[1].(*ast.DeferStmt)
	if ok1 && ok2 {
		if c, ok := a.X.(*ast.CallExpr); ok && strings.HasSuffix(srcOf(c.Fun), ".Lock") && strings.HasSuffix(srcOf(b.Call.Fun), ".Unlock") {
			return strings.TrimSuffix(srcOf(c.Fun), ".Lock")
		}
	}
	// comment lines are not statements, so a leading comment does not matter
	return "none"
}

func leanStrList(xs []string) string {
	q := []string{}
	for _, x := range xs {
		q = append(q, fmt.Sprintf("%q", x))
	}
	return "[" + strings.Join(q, ", ") + "]"
}

func extractFacts(repo string) (string, error) {
	fx := &factx{repo: repo, files: map[string]*ast.File{}}
	facts := map[string]any{}

	// 1. which builder methods mark errors as checked
	ecs := []string{}
	for _, m := range []string{"HandleErrors", "HandleErrorTypes", "HandleResult", "HandleIf"} {
		if fd := fx.fn("policy/policy.go", "BaseFailurePolicy", m); fd != nil {
			ast.Inspect(fd.Body, func(n ast.Node) bool {
				if as, ok := n.(*ast.AssignStmt); ok && len(as.Lhs) == 1 && srcOf(as.Lhs[0]) == "p.errorsChecked" && srcOf(as.Rhs[0]) == "true" {
					ecs = append(ecs, m)
				}
				return true
			})
		}
	}
	facts["errorsCheckedSetBy"] = ecs

	// 2. select tables
	sel := map[string][]string{}
	for _, f := range []string{"AcquirePermit", "AcquirePermitWithMaxWait", "TryAcquirePermit"} {
		sel["bulkhead."+f] = selectTable(fx.fn("bulkhead/bulkhead.go", "bulkhead", f))
	}
	for _, f := range []string{"AcquirePermits", "acquirePermitsWithMaxWait"} {
		sel["ratelimiter."+f] = selectTable(fx.fn("ratelimiter/ratelimiter.go", "rateLimiter", f))
	}
	sel["retry.Apply"] = selectTable(fx.fn("retrypolicy/retryexecutor.go", "executor", "Apply"))
	sel["hedge.Apply"] = selectTable(fx.fn("hedgepolicy/hedgeexecutor.go", "executor", "Apply"))
	facts["selects"] = sel

	// 3. ordered effects of the functions the models transcribe
	eff := map[string][]string{}
	for _, e := range [][3]string{
		{"executor.go", "executor", "execute"}, {"executor.go", "executor", "executeAsync"}, {"executor.go", "executor", "executeSync"},
		{"result.go", "executionResult", "record"}, {"result.go", "executionResult", "Cancel"}, {"result.go", "executionResult", "Get"},
		{"policy/policyexecutor.go", "BaseExecutor", "Apply"}, {"policy/policyexecutor.go", "BaseExecutor", "PostExecute"},
		{"retrypolicy/retryexecutor.go", "executor", "Apply"}, {"retrypolicy/retryexecutor.go", "executor", "OnFailure"},
		{"retrypolicy/retry.go", "retryPolicy", "ToExecutor"}, {"retrypolicy/retry.go", "config", "Build"}, {"retrypolicy/retry.go", "config", "allowsRetries"},
		{"retrypolicy/retryexecutor.go", "executor", "getDelay"}, {"retrypolicy/retryexecutor.go", "executor", "getFixedOrRandomDelay"},
		{"retrypolicy/retryexecutor.go", "executor", "adjustForJitter"}, {"retrypolicy/retryexecutor.go", "executor", "adjustForMaxDuration"},
		{"circuitbreaker/circuitbreaker.go", "circuitBreaker", "ToExecutor"}, {"hedgepolicy/hedge.go", "hedgePolicy", "ToExecutor"},
		{"hedgepolicy/hedge.go", "config", "Build"}, {"fallback/fallback.go", "fallback", "ToExecutor"},
		{"circuitbreaker/circuitbreakerexecutor.go", "executor", "PreExecute"}, {"circuitbreaker/circuitbreakerexecutor.go", "executor", "OnSuccess"},
		{"circuitbreaker/circuitbreakerexecutor.go", "executor", "OnFailure"}, {"circuitbreaker/circuitbreaker.go", "circuitBreaker", "transitionTo"},
		{"bulkhead/bulkheadexecutor.go", "executor", "PreExecute"}, {"bulkhead/bulkheadexecutor.go", "executor", "PostExecute"},
		{"ratelimiter/ratelimiterexecutor.go", "executor", "Apply"}, {"ratelimiter/ratelimiter.go", "rateLimiter", "acquirePermitsWithMaxWait"},
		{"ratelimiter/ratelimiter.go", "rateLimiter", "AcquirePermits"},
		{"timeout/timeoutexecutor.go", "executor", "Apply"}, {"hedgepolicy/hedgeexecutor.go", "executor", "Apply"},
		{"fallback/fallbackexecutor.go", "executor", "Apply"}, {"cachepolicy/cacheexecutor.go", "executor", "PreExecute"},
		{"cachepolicy/cacheexecutor.go", "executor", "PostExecute"}, {"cachepolicy/cacheexecutor.go", "executor", "getCacheKey"},
		{"execution.go", "execution", "RecordResult"}, {"execution.go", "execution", "InitializeRetry"}, {"execution.go", "execution", "Cancel"},
		{"execution.go", "execution", "isCanceledWithResult"}, {"execution.go", "execution", "CopyForHedge"}, {"execution.go", "execution", "CopyForCancellable"},
		{"execution.go", "execution", "record"}, {"internal/util/util.go", "", "MergeContexts"},
		{"failsafehttp/http.go", "", "doRequest"}, {"failsafegrpc/client.go", "", "NewUnaryClientInterceptorWithExecutor"},
		{"failsafegrpc/server.go", "", "NewUnaryServerInterceptorWithExecutor"},
	} {
		key := strings.TrimSuffix(filepath.Base(e[0]), ".go") + ":" + e[1] + "." + e[2]
		eff[key] = fx.effectsOf(e[0], e[1], e[2])
	}
	facts["effects"] = eff

	// 3b. normalised body text of the small functions whose exact logic a model transcribes by hand and that are outside the
	// translator's subset (a change here is a broken obligation: the hand model has to be re-validated)
	bodies := map[string]string{}
	for _, e := range [][3]string{
		{"retrypolicy/retryexecutor.go", "executor", "OnFailure"}, {"retrypolicy/retryexecutor.go", "executor", "Apply"},
		{"retrypolicy/retry.go", "retryPolicy", "ToExecutor"}, {"retrypolicy/retry.go", "config", "Build"},
		{"execution.go", "execution", "RecordResult"}, {"execution.go", "execution", "InitializeRetry"}, {"execution.go", "execution", "Cancel"},
		{"execution.go", "execution", "isCanceledWithResult"}, {"execution.go", "execution", "CopyForHedge"}, {"execution.go", "execution", "CopyForCancellable"},
		{"execution.go", "execution", "copy"}, {"execution.go", "", "newExecution"},
		{"result.go", "executionResult", "record"}, {"result.go", "executionResult", "Cancel"}, {"result.go", "executionResult", "Get"},
		{"executor.go", "executor", "execute"}, {"executor.go", "executor", "executeAsync"},
		{"timeout/timeoutexecutor.go", "executor", "Apply"}, {"timeout/timeoutexecutor.go", "executor", "IsFailure"},
		{"hedgepolicy/hedgeexecutor.go", "executor", "Apply"}, {"hedgepolicy/hedge.go", "config", "Build"},
		{"circuitbreaker/circuitbreaker.go", "circuitBreaker", "transitionTo"}, {"circuitbreaker/circuitstats.go", "timedStats", "currentBucket"},
		{"circuitbreaker/circuitbreakerexecutor.go", "executor", "OnFailure"}, {"circuitbreaker/circuitbreakerexecutor.go", "executor", "OnSuccess"},
		{"circuitbreaker/circuitbreakerexecutor.go", "executor", "PreExecute"},
		{"bulkhead/bulkhead.go", "bulkhead", "AcquirePermitWithMaxWait"}, {"bulkhead/bulkhead.go", "bulkhead", "ReleasePermit"},
		{"bulkhead/bulkheadexecutor.go", "executor", "PreExecute"}, {"bulkhead/bulkheadexecutor.go", "executor", "PostExecute"},
		{"fallback/fallbackexecutor.go", "executor", "Apply"}, {"cachepolicy/cacheexecutor.go", "executor", "PreExecute"},
		{"cachepolicy/cacheexecutor.go", "executor", "PostExecute"}, {"policy/policyexecutor.go", "BaseExecutor", "Apply"},
		{"policy/policyexecutor.go", "BaseExecutor", "PostExecute"}, {"internal/util/util.go", "", "MergeContexts"},
		{"failsafehttp/http.go", "", "doRequest"}, {"failsafehttp/http.go", "", "bodyReader"},
		{"failsafehttp/http.go", "cancelOnCloseBody", "Close"}, {"failsafehttp/http.go", "roundTripper", "RoundTrip"}, {"failsafehttp/http.go", "Request", "Do"},
		{"failsafegrpc/client.go", "", "NewUnaryClientInterceptorWithExecutor"}, {"failsafegrpc/server.go", "", "NewUnaryServerInterceptorWithExecutor"},
		{"failsafegrpc/server.go", "", "NewServerInHandleWithExecutor"},
		{"timeout/timeout.go", "config", "Build"}, {"fallback/fallback.go", "config", "Build"},
		// the glue around the modelled cores: the rate limiter's public methods, the future's getters, ExceededError, condition registration
		{"ratelimiter/ratelimiter.go", "rateLimiter", "AcquirePermit"}, {"ratelimiter/ratelimiter.go", "rateLimiter", "AcquirePermitWithMaxWait"},
		{"ratelimiter/ratelimiter.go", "rateLimiter", "AcquirePermitsWithMaxWait"}, {"ratelimiter/ratelimiter.go", "rateLimiter", "AcquirePermits"},
		{"ratelimiter/ratelimiter.go", "rateLimiter", "ReservePermit"}, {"ratelimiter/ratelimiter.go", "rateLimiter", "ReservePermits"},
		{"ratelimiter/ratelimiter.go", "rateLimiter", "TryAcquirePermit"}, {"ratelimiter/ratelimiter.go", "rateLimiter", "TryAcquirePermits"},
		{"ratelimiter/ratelimiter.go", "rateLimiter", "TryReservePermit"}, {"ratelimiter/ratelimiter.go", "rateLimiter", "TryReservePermits"},
		{"ratelimiter/ratelimiter.go", "rateLimiter", "Reset"}, {"ratelimiter/ratelimiterstats.go", "smoothStats", "reset"},
		{"ratelimiter/ratelimiterstats.go", "burstyStats", "reset"},
		{"result.go", "executionResult", "Done"}, {"result.go", "executionResult", "IsDone"}, {"result.go", "executionResult", "Result"},
		{"result.go", "executionResult", "Error"},
		{"retrypolicy/retry.go", "ExceededError", "Error"}, {"retrypolicy/retry.go", "ExceededError", "Is"}, {"retrypolicy/retry.go", "ExceededError", "Unwrap"},
		{"policy/policy.go", "BaseFailurePolicy", "HandleIf"}, {"policy/policy.go", "BaseAbortablePolicy", "AbortOnErrorTypes"},
		{"policy/policy.go", "BaseAbortablePolicy", "AbortIf"}, {"policy/policy.go", "BaseAbortablePolicy", "IsConfigured"},
		{"internal/util/util.go", "", "ErrorTypesMatch"}, {"internal/util/util.go", "", "errorAs"}, {"internal/util/util.go", "", "AppliesToAny"},
		// entry points, constructors and getters: the code between the caller and the modelled executors
		{"executor.go", "", "Run"}, {"executor.go", "", "RunWithExecution"}, {"executor.go", "", "Get"}, {"executor.go", "", "GetWithExecution"},
		{"executor.go", "", "RunAsync"}, {"executor.go", "", "RunWithExecutionAsync"}, {"executor.go", "", "GetAsync"},
		{"executor.go", "", "GetWithExecutionAsync"}, {"executor.go", "", "NewExecutor"}, {"executor.go", "executor", "WithContext"},
		{"executor.go", "executor", "OnDone"}, {"executor.go", "executor", "OnSuccess"}, {"executor.go", "executor", "OnFailure"},
		{"executor.go", "executor", "Run"}, {"executor.go", "executor", "RunWithExecution"}, {"executor.go", "executor", "Get"},
		{"executor.go", "executor", "GetWithExecution"}, {"executor.go", "executor", "RunAsync"}, {"executor.go", "executor", "RunWithExecutionAsync"},
		{"executor.go", "executor", "GetAsync"}, {"executor.go", "executor", "GetWithExecutionAsync"}, {"execution.go", "execution", "StartTime"},
		{"execution.go", "execution", "ElapsedTime"}, {"execution.go", "execution", "Context"}, {"execution.go", "execution", "AttemptStartTime"},
		{"execution.go", "execution", "ElapsedAttemptTime"}, {"execution.go", "execution", "Canceled"}, {"events.go", "", "newExecutionDoneEvent"},
		{"internal/execution.go", "", "FailureResult"}, {"failsafegrpc/client.go", "", "NewUnaryClientInterceptor"},
		{"failsafegrpc/server.go", "", "NewServerInHandle"}, {"failsafegrpc/server.go", "", "NewUnaryServerInterceptor"},
		{"failsafehttp/http.go", "", "NewRoundTripper"}, {"failsafehttp/http.go", "", "NewRoundTripperWithExecutor"},
		{"failsafehttp/http.go", "", "NewRequest"}, {"failsafehttp/http.go", "", "NewRequestWithExecutor"}, {"fallback/fallback.go", "", "WithResult"},
		{"fallback/fallback.go", "", "WithError"}, {"fallback/fallback.go", "", "WithFunc"}, {"hedgepolicy/hedge.go", "", "WithDelay"},
		{"hedgepolicy/hedge.go", "", "WithDelayFunc"}, {"bulkhead/bulkhead.go", "bulkhead", "ToExecutor"},
		{"cachepolicy/cache.go", "cachePolicy", "ToExecutor"}, {"ratelimiter/ratelimiter.go", "rateLimiter", "ToExecutor"},
		{"timeout/timeout.go", "timeout", "ToExecutor"}, {"internal/util/util.go", "wallClock", "CurrentUnixNano"},
		{"internal/util/util.go", "", "NewClock"}, {"internal/util/util.go", "", "NewStopwatch"},
		{"internal/util/util.go", "wallClockStopwatch", "ElapsedTime"}, {"internal/util/util.go", "wallClockStopwatch", "Reset"},
		{"retrypolicy/retry.go", "", "WithDefaults"}, {"circuitbreaker/circuitbreakerbuilder.go", "", "WithDefaults"},
		// the breaker's small state and statistics functions the sequential breaker model transcribes
		{"circuitbreaker/circuitstats.go", "countingStats", "recordFailure"}, {"circuitbreaker/circuitstats.go", "countingStats", "recordSuccess"},
		{"circuitbreaker/circuitstats.go", "countingStats", "reset"}, {"circuitbreaker/circuitstats.go", "timedStats", "recordFailure"},
		{"circuitbreaker/circuitstats.go", "timedStats", "recordSuccess"}, {"circuitbreaker/circuitstats.go", "timedStats", "reset"},
		{"circuitbreaker/circuitstats.go", "stat", "reset"}, {"circuitbreaker/circuitstats.go", "stat", "remove"},
		{"circuitbreaker/circuitstats.go", "", "newStats"},
		{"circuitbreaker/circuitstates.go", "closedState", "tryAcquirePermit"}, {"circuitbreaker/circuitstates.go", "closedState", "remainingDelay"},
		{"circuitbreaker/circuitstates.go", "openState", "checkThresholdAndReleasePermit"}, {"circuitbreaker/circuitstates.go", "halfOpenState", "remainingDelay"},
		{"circuitbreaker/circuitstates.go", "", "newOpenState"},
		{"circuitbreaker/circuitbreaker.go", "circuitBreaker", "tryAcquirePermit"}, {"circuitbreaker/circuitbreaker.go", "circuitBreaker", "open"},
		{"circuitbreaker/circuitbreaker.go", "circuitBreaker", "close"}, {"circuitbreaker/circuitbreaker.go", "circuitBreaker", "halfOpen"},
		{"circuitbreaker/circuitbreaker.go", "circuitBreaker", "Reset"}, {"circuitbreaker/circuitbreaker.go", "circuitBreaker", "IsOpen"},
		{"circuitbreaker/circuitbreaker.go", "circuitBreaker", "IsHalfOpen"}, {"circuitbreaker/circuitbreaker.go", "circuitBreaker", "IsClosed"},
	} {
		key := strings.TrimSuffix(filepath.Base(e[0]), ".go") + ":" + e[1] + "." + e[2]
		if fd := fx.fn(e[0], e[1], e[2]); fd != nil {
			bodies[key] = srcOf(fd.Body)
		}
	}
	facts["bodies"] = bodies

	// 4. root execution of executeAsync gets the cancel function
	has := false
	if fd := fx.fn("executor.go", "executor", "executeAsync"); fd != nil {
		ast.Inspect(fd.Body, func(n ast.Node) bool {
			if as, ok := n.(*ast.AssignStmt); ok {
				for _, l := range as.Lhs {
					if srcOf(l) == "exec.cancelFunc" {
						has = true
					}
				}
			}
			return true
		})
	}
	facts["rootHasCancelFunc"] = has

	// 4b. how the waits of the admission policies report a cancellation: the bulkhead executor, on an error of its wait that is
	// not ErrFull, returns the execution's cancel result (IsCanceledWithResult); the rate limiter's wait, woken by
	// exec.Canceled(), returns the error of the execution's cancel result
	bhReports := false
	if fd := fx.fn("bulkhead/bulkheadexecutor.go", "executor", "PreExecute"); fd != nil {
		ast.Inspect(fd.Body, func(n ast.Node) bool {
			if ifs, ok := n.(*ast.IfStmt); ok && strings.Contains(srcOf(ifs.Cond), "!errors.Is(err, ErrFull)") {
				ast.Inspect(ifs.Body, func(m ast.Node) bool {
					if inner, ok := m.(*ast.IfStmt); ok && inner.Init != nil && strings.Contains(srcOf(inner.Init), "exec.IsCanceledWithResult()") {
						for _, st := range inner.Body.List {
							if rs, ok := st.(*ast.ReturnStmt); ok && len(rs.Results) == 1 && srcOf(rs.Results[0]) == "cancelResult" {
								bhReports = true
							}
						}
					}
					return true
				})
			}
			return true
		})
	}
	facts["bulkheadWaitReportsCancelResult"] = bhReports
	rlReports := false
	if fd := fx.fn("ratelimiter/ratelimiter.go", "rateLimiter", "acquirePermitsWithMaxWait"); fd != nil {
		ast.Inspect(fd.Body, func(n ast.Node) bool {
			if cc, ok := n.(*ast.CommClause); ok && cc.Comm != nil && strings.Contains(srcOf(cc.Comm), "exec.Canceled()") {
				ast.Inspect(cc, func(m ast.Node) bool {
					if inner, ok := m.(*ast.IfStmt); ok && inner.Init != nil && strings.Contains(srcOf(inner.Init), ".IsCanceledWithResult()") {
						for _, st := range inner.Body.List {
							if rs, ok := st.(*ast.ReturnStmt); ok && len(rs.Results) == 1 && srcOf(rs.Results[0]) == "cancelResult.Error" {
								rlReports = true
							}
						}
					}
					return true
				})
			}
			return true
		})
	}
	facts["limiterWaitReportsCancelResult"] = rlReports

	// 5. goroutine / timer spawn sites in non-test library code (file:function, no line numbers)
	sites := []string{}
	filepath.Walk(repo, func(p string, info os.FileInfo, err error) error {
		if err != nil {
			return nil
		}
		if info.IsDir() && (info.Name() == "examples" || info.Name() == "testutil" || info.Name() == "policytesting" || info.Name() == "test" || info.Name() == ".git") {
			return filepath.SkipDir
		}
		if !strings.HasSuffix(p, ".go") || strings.HasSuffix(p, "_test.go") || strings.HasSuffix(p, "verif_hooks.go") {
			return nil
		}
		rel := strings.TrimPrefix(p, repo+"/")
		f := fx.file(rel)
		for _, d := range f.Decls {
			fd, ok := d.(*ast.FuncDecl)
			if !ok || fd.Body == nil {
				continue
			}
			where := rel + ":" + recvName(fd) + "." + fd.Name.Name
			ast.Inspect(fd.Body, func(n ast.Node) bool {
				switch v := n.(type) {
				case *ast.GoStmt:
					sites = append(sites, "go "+where)
				case *ast.CallExpr:
					fn := srcOf(v.Fun)
					if fn == "time.AfterFunc" || fn == "time.NewTimer" || fn == "time.Sleep" || fn == "time.After" || fn == "time.NewTicker" || fn == "time.Tick" || fn == "context.AfterFunc" {
						sites = append(sites, fn+" "+where)
					}
				}
				return true
			})
		}
		return nil
	})
	sort.Strings(sites)
	facts["spawnSites"] = sites

	// 6. lock discipline of the mutex-guarded objects
	locks := map[string]string{}
	for _, m := range []string{"TryAcquirePermit", "Open", "HalfOpen", "Close", "State", "RemainingDelay", "Executions", "Failures", "FailureRate", "Successes", "SuccessRate", "RecordFailure", "RecordError", "RecordResult", "RecordSuccess"} {
		locks["circuitBreaker."+m] = lockedMethod(fx.fn("circuitbreaker/circuitbreaker.go", "circuitBreaker", m))
	}
	locks["smoothStats.acquirePermits"] = lockedMethod(fx.fn("ratelimiter/ratelimiterstats.go", "smoothStats", "acquirePermits"))
	locks["burstyStats.acquirePermits"] = lockedMethod(fx.fn("ratelimiter/ratelimiterstats.go", "burstyStats", "acquirePermits"))
	for _, m := range []string{"RecordResult", "InitializeRetry", "Cancel", "IsCanceledWithResult"} {
		locks["execution."+m] = lockedMethod(fx.fn("execution.go", "execution", m))
	}
	facts["locks"] = locks

	// 7. hedge result channel capacity
	hedgeCap := -1
	if fd := fx.fn("hedgepolicy/hedgeexecutor.go", "executor", "Apply"); fd != nil {
		ast.Inspect(fd.Body, func(n ast.Node) bool {
			if as, ok := n.(*ast.AssignStmt); ok && len(as.Lhs) == 1 && srcOf(as.Lhs[0]) == "resultChan" {
				if c, ok := as.Rhs[0].(*ast.CallExpr); ok && srcOf(c.Fun) == "make" {
					hedgeCap = 0
					if len(c.Args) == 2 {
						fmt.Sscanf(srcOf(c.Args[1]), "%d", &hedgeCap)
					}
				}
			}
			return true
		})
	}
	facts["hedgeChanCap"] = hedgeCap

	// 8. the composition loop of execute
	loop := "unknown"
	if fd := fx.fn("executor.go", "executor", "execute"); fd != nil {
		ast.Inspect(fd.Body, func(n ast.Node) bool {
			if fs, ok := n.(*ast.ForStmt); ok && fs.Init != nil && fs.Cond != nil && fs.Post != nil {
				loop = srcOf(fs.Init) + "; " + srcOf(fs.Cond) + "; " + srcOf(fs.Post) + " { " + srcOf(fs.Body) + " }"
			}
			return true
		})
	}
	facts["executeLoop"] = loop

	// 9. gRPC retryable code table (keys of the map literal, as numeric codes)
	codeNum := map[string]int{"OK": 0, "Canceled": 1, "Unknown": 2, "InvalidArgument": 3, "DeadlineExceeded": 4, "NotFound": 5, "AlreadyExists": 6,
		"PermissionDenied": 7, "ResourceExhausted": 8, "FailedPrecondition": 9, "Aborted": 10, "OutOfRange": 11, "Unimplemented": 12, "Internal": 13,
		"Unavailable": 14, "DataLoss": 15, "Unauthenticated": 16}
	grpcCodes := []int{}
	if f := fx.file("failsafegrpc/policy.go"); f != nil {
		ast.Inspect(f, func(n ast.Node) bool {
			vs, ok := n.(*ast.ValueSpec)
			if !ok || len(vs.Names) != 1 || vs.Names[0].Name != "retryableStatusCodes" || len(vs.Values) != 1 {
				return true
			}
			if cl, ok := vs.Values[0].(*ast.CompositeLit); ok {
				for _, el := range cl.Elts {
					if kv, ok := el.(*ast.KeyValueExpr); ok {
						name := strings.TrimPrefix(srcOf(kv.Key), "codes.")
						if c, ok := codeNum[name]; ok {
							grpcCodes = append(grpcCodes, c)
						} else {
							grpcCodes = append(grpcCodes, 1000) // unknown key: makes the table expectation fail
						}
					}
				}
			}
			return false
		})
	}
	sort.Ints(grpcCodes)
	facts["grpcRetryableCodes"] = grpcCodes

	// 10. the builder chain of the HTTP retry policy (conditions, abort condition, delay function)
	chain := "unknown"
	if fd := fx.fn("failsafehttp/policy.go", "", "RetryPolicyBuilder"); fd != nil {
		for _, st := range fd.Body.List {
			if rs, ok := st.(*ast.ReturnStmt); ok && len(rs.Results) == 1 {
				chain = srcOf(rs.Results[0])
			}
		}
	}
	facts["httpRetryBuilderChain"] = chain
	gchain := "unknown"
	if fd := fx.fn("failsafegrpc/policy.go", "", "RetryPolicyBuilder"); fd != nil {
		for _, st := range fd.Body.List {
			if rs, ok := st.(*ast.ReturnStmt); ok && len(rs.Results) == 1 {
				if c, ok := rs.Results[0].(*ast.CallExpr); ok {
					gchain = srcOf(c.Fun)
				}
			}
		}
	}
	facts["grpcRetryBuilderChain"] = gchain
	regexes := map[string]string{}
	if f := fx.file("failsafehttp/policy.go"); f != nil {
		ast.Inspect(f, func(n ast.Node) bool {
			if vs, ok := n.(*ast.ValueSpec); ok && len(vs.Names) == 1 && len(vs.Values) == 1 {
				if c, ok := vs.Values[0].(*ast.CallExpr); ok && srcOf(c.Fun) == "regexp.MustCompile" {
					regexes[vs.Names[0].Name] = srcOf(c.Args[0])
				}
			}
			return true
		})
	}
	facts["httpRegexes"] = regexes

	// 10b. every stoppable timer is stopped on the branches that leave its select without the timer having fired
	timerStops := map[string][]string{}
	for _, e := range [][3]string{
		{"retrypolicy/retryexecutor.go", "executor", "Apply"}, {"hedgepolicy/hedgeexecutor.go", "executor", "Apply"},
		{"bulkhead/bulkhead.go", "bulkhead", "AcquirePermitWithMaxWait"}, {"ratelimiter/ratelimiter.go", "rateLimiter", "AcquirePermits"},
		{"ratelimiter/ratelimiter.go", "rateLimiter", "acquirePermitsWithMaxWait"}, {"timeout/timeoutexecutor.go", "executor", "Apply"},
	} {
		fd := fx.fn(e[0], e[1], e[2])
		if fd == nil {
			continue
		}
		key := e[0] + ":" + e[1] + "." + e[2]
		deferred := false
		ast.Inspect(fd.Body, func(n ast.Node) bool {
			if d, ok := n.(*ast.DeferStmt); ok && strings.HasSuffix(srcOf(d.Call.Fun), "imer.Stop") {
				deferred = true
			}
			return true
		})
		out := []string{}
		idx := 0
		ast.Inspect(fd.Body, func(n ast.Node) bool {
			sel, ok := n.(*ast.SelectStmt)
			if !ok {
				return true
			}
			hasTimer := false
			allStop := true
			for _, c := range sel.Body.List {
				cc := c.(*ast.CommClause)
				if cc.Comm != nil && strings.Contains(srcOf(cc.Comm), "timer.C") {
					hasTimer = true
					continue
				}
				stops := false
				for _, st := range cc.Body {
					if strings.Contains(srcOf(st), "timer.Stop()") {
						stops = true
					}
				}
				if !stops {
					allStop = false
				}
			}
			if hasTimer {
				switch {
				case deferred:
					out = append(out, fmt.Sprintf("select%d deferred-stop", idx))
				case allStop:
					out = append(out, fmt.Sprintf("select%d stopped-on-other-branches", idx))
				default:
					out = append(out, fmt.Sprintf("select%d NOT-STOPPED", idx))
				}
			}
			idx++
			return true
		})
		// the timeout's AfterFunc timer: stopped by the main path
		if e[0] == "timeout/timeoutexecutor.go" {
			if strings.Contains(srcOf(fd.Body), "timer.Stop()") {
				out = append(out, "afterfunc stopped-by-main-path")
			} else {
				out = append(out, "afterfunc NOT-STOPPED")
			}
		}
		timerStops[key] = out
	}
	facts["timerStops"] = timerStops

	// 11. does the cancel function returned by MergeContexts end the watcher it started?
	mergeStops := true
	if fd := fx.fn("internal/util/util.go", "", "MergeContexts"); fd != nil {
		stopName, spawns, goSelectsOwn := "", false, false
		var retLit *ast.FuncLit
		ast.Inspect(fd.Body, func(n ast.Node) bool {
			switch v := n.(type) {
			case *ast.AssignStmt:
				if len(v.Lhs) == 1 && len(v.Rhs) == 1 {
					if c, ok := v.Rhs[0].(*ast.CallExpr); ok && srcOf(c.Fun) == "context.AfterFunc" {
						stopName = srcOf(v.Lhs[0])
						spawns = true
					}
				}
			case *ast.GoStmt:
				spawns = true
				// a goroutine that also waits on the merged context itself ends when that context is cancelled
				ast.Inspect(v, func(m ast.Node) bool {
					if cc, ok := m.(*ast.CommClause); ok && cc.Comm != nil && strings.Contains(srcOf(cc.Comm), "ctx.Done()") {
						goSelectsOwn = true
					}
					return true
				})
			case *ast.ReturnStmt:
				if len(v.Results) == 2 {
					if fl, ok := v.Results[1].(*ast.FuncLit); ok {
						retLit = fl
					}
				}
			}
			return true
		})
		if spawns {
			mergeStops = goSelectsOwn
			if stopName != "" && retLit != nil {
				ast.Inspect(retLit, func(n ast.Node) bool {
					if c, ok := n.(*ast.CallExpr); ok && srcOf(c.Fun) == stopName {
						mergeStops = true
					}
					return true
				})
			}
		}
	} else {
		mergeStops = false
	}
	facts["mergeReleaseStopsWatcher"] = mergeStops

	// 12. shape of doRequest: previous response closed before the next attempt; context released when the body is closed
	closesPrev, releaseOnClose := false, false
	if fd := fx.fn("failsafehttp/http.go", "", "doRequest"); fd != nil {
		lastVar := ""
		seenReq := false
		uncondDefer := false
		wraps := false
		ast.Inspect(fd.Body, func(n ast.Node) bool {
			switch v := n.(type) {
			case *ast.AssignStmt:
				if len(v.Lhs) == 1 && len(v.Rhs) == 1 {
					if c, ok := v.Rhs[0].(*ast.CallExpr); ok && srcOf(c.Fun) == "exec.LastResult" {
						lastVar = srcOf(v.Lhs[0])
					}
					if srcOf(v.Lhs[0]) == "resp.Body" && strings.Contains(srcOf(v.Rhs[0]), "cancelOnCloseBody{") && strings.Contains(srcOf(v.Rhs[0]), "cancel: cancel") {
						wraps = true
					}
				}
			case *ast.CallExpr:
				if srcOf(v.Fun) == "reqFn" {
					seenReq = true
				}
				if lastVar != "" && srcOf(v.Fun) == lastVar+".Body.Close" && !seenReq {
					closesPrev = true
				}
			case *ast.DeferStmt:
				if srcOf(v.Call.Fun) == "cancel" {
					uncondDefer = true
				}
			}
			return true
		})
		closeCancels := false
		if cd := fx.fn("failsafehttp/http.go", "cancelOnCloseBody", "Close"); cd != nil {
			ast.Inspect(cd.Body, func(n ast.Node) bool {
				if c, ok := n.(*ast.CallExpr); ok && srcOf(c.Fun) == "b.cancel" {
					closeCancels = true
				}
				return true
			})
		}
		releaseOnClose = wraps && closeCancels && !uncondDefer
	}
	facts["httpClosesPreviousResponse"] = closesPrev
	facts["httpReleaseOnBodyClose"] = releaseOnClose

	// 13. access table of the shared structs (C14)
	arows, underLock, _ := accessTable(repo)
	allAcc, unguarded := accessStrings(arows)
	facts["accessTable"] = allAcc
	facts["unguardedAccesses"] = unguarded
	facts["callsUnderLock"] = underLock

	// 14. which call sites hand the live execution (not a copy) to user code
	live := []string{}
	for _, e := range [][3]string{
		{"retrypolicy/retryexecutor.go", "executor", "Apply"}, {"retrypolicy/retryexecutor.go", "executor", "OnFailure"},
		{"hedgepolicy/hedgeexecutor.go", "executor", "Apply"}, {"ratelimiter/ratelimiterexecutor.go", "executor", "Apply"},
		{"bulkhead/bulkheadexecutor.go", "executor", "PreExecute"}, {"cachepolicy/cacheexecutor.go", "executor", "PreExecute"},
		{"cachepolicy/cacheexecutor.go", "executor", "PostExecute"}, {"timeout/timeoutexecutor.go", "executor", "Apply"},
		{"fallback/fallbackexecutor.go", "executor", "Apply"}, {"circuitbreaker/circuitbreaker.go", "circuitBreaker", "transitionTo"},
		{"policy/policyexecutor.go", "BaseExecutor", "OnSuccess"}, {"policy/policyexecutor.go", "BaseExecutor", "OnFailure"},
		{"executor.go", "executor", "execute"},
	} {
		fd := fx.fn(e[0], e[1], e[2])
		if fd == nil {
			continue
		}
		ast.Inspect(fd.Body, func(n ast.Node) bool {
			c, ok := n.(*ast.CallExpr)
			if !ok {
				return true
			}
			fn := srcOf(c.Fun)
			user := strings.Contains(fn, ".on") || strings.HasSuffix(fn, "delayFunc") || strings.HasSuffix(fn, "getDelay") || strings.HasSuffix(fn, "ComputeDelay") || strings.HasSuffix(fn, ".fn") || strings.HasPrefix(fn, "e.on")
			if !user {
				return true
			}
			for _, a := range c.Args {
				as := srcOf(a)
				if as == "exec" || as == "execInternal" || as == "parentExecution" || strings.Contains(as, "ExecutionAttempt: exec,") || strings.Contains(as, "ExecutionAttempt: exec}") ||
					strings.Contains(as, "ExecutionAttempt: execInternal}") || strings.Contains(as, "ExecutionAttempt: execInternal,") {
					live = append(live, e[0]+":"+e[1]+"."+e[2]+" "+fn)
				}
			}
			return true
		})
	}
	sort.Strings(live)
	facts["liveExecutionToUserCode"] = live

	// 15. library call sites of the execution's unlocked getters (outside execution.go)
	getters := []string{}
	filepath.Walk(repo, func(p string, info os.FileInfo, err error) error {
		if err != nil {
			return nil
		}
		if info.IsDir() && (info.Name() == "examples" || info.Name() == "testutil" || info.Name() == "policytesting" || info.Name() == "test" || info.Name() == ".git") {
			return filepath.SkipDir
		}
		if !strings.HasSuffix(p, ".go") || strings.HasSuffix(p, "_test.go") || strings.HasSuffix(p, "verif_hooks.go") || strings.HasSuffix(p, "/execution.go") {
			return nil
		}
		rel := strings.TrimPrefix(p, repo+"/")
		f := fx.file(rel)
		if f == nil {
			return nil
		}
		for _, d := range f.Decls {
			fd, ok := d.(*ast.FuncDecl)
			if !ok || fd.Body == nil {
				continue
			}
			ast.Inspect(fd.Body, func(n ast.Node) bool {
				if c, ok := n.(*ast.CallExpr); ok {
					if se, ok := c.Fun.(*ast.SelectorExpr); ok {
						switch se.Sel.Name {
						case "LastError", "LastResult", "AttemptStartTime", "ElapsedAttemptTime", "IsHedge":
							getters = append(getters, rel+":"+recvName(fd)+"."+fd.Name.Name+" "+srcOf(c.Fun))
						}
					}
				}
				return true
			})
		}
		return nil
	})
	sort.Strings(getters)
	facts["unlockedGetterCallSites"] = getters

	if len(fx.errs) > 0 {
		facts["errors"] = fx.errs
	}
	js, _ := json.MarshalIndent(facts, "", " ")
	factsJSON = js

	var sb strings.Builder
	sb.WriteString("-- GENERATED by /verif/translate (FACTS) from /repo on every check; do not edit, not committed\n")
	sb.WriteString("namespace Failsafe.Generated.Facts\n\n")
	sb.WriteString("/-- builder methods of `BaseFailurePolicy` that set `errorsChecked` -/\n")
	sb.WriteString("def errorsCheckedSetBy : List String := " + leanStrList(ecs) + "\n\n")
	sb.WriteString("/-- `executeAsync` gives the root execution its cancel function -/\n")
	sb.WriteString(fmt.Sprintf("def rootHasCancelFunc : Bool := %v\n\n", has))
	sb.WriteString("/-- the bulkhead executor returns the execution's cancel result when its wait ends with an error other than ErrFull -/\n")
	sb.WriteString(fmt.Sprintf("def bulkheadWaitReportsCancelResult : Bool := %v\n\n", bhReports))
	sb.WriteString("/-- the rate limiter's wait inside an execution, woken by exec.Canceled(), returns the error of the execution's cancel result -/\n")
	sb.WriteString(fmt.Sprintf("def limiterWaitReportsCancelResult : Bool := %v\n\n", rlReports))
	sb.WriteString("/-- capacity of the hedge executor's result channel (-1 = not found) -/\n")
	sb.WriteString(fmt.Sprintf("def hedgeChanCap : Int := %d\n\n", hedgeCap))
	sb.WriteString("/-- goroutine and timer spawn sites of the library (kind file:receiver.function) -/\n")
	sb.WriteString("def spawnSites : List String := " + leanStrList(sites) + "\n\n")
	gc := []string{}
	for _, c := range grpcCodes {
		gc = append(gc, fmt.Sprint(c))
	}
	sb.WriteString("/-- numeric gRPC codes in `retryableStatusCodes`, sorted -/\n")
	sb.WriteString("def grpcRetryableCodes : List Nat := [" + strings.Join(gc, ", ") + "]\n\n")
	sb.WriteString("/-- the cancel function returned by `MergeContexts` ends the watcher it started -/\n")
	sb.WriteString(fmt.Sprintf("def mergeReleaseStopsWatcher : Bool := %v\n\n", mergeStops))
	sb.WriteString("/-- `doRequest` closes the previous attempt's response before the next attempt -/\n")
	sb.WriteString(fmt.Sprintf("def httpClosesPreviousResponse : Bool := %v\n\n", closesPrev))
	sb.WriteString("/-- a response's per-attempt context is released when its body is closed (not when the attempt returns) -/\n")
	sb.WriteString(fmt.Sprintf("def httpReleaseOnBodyClose : Bool := %v\n\n", releaseOnClose))
	sb.WriteString("/-- accesses `struct.field method R|W` to mutable fields of the shared structs that no mutex, atomic or channel guards -/\n")
	sb.WriteString("def unguardedAccesses : List String := " + leanStrList(unguarded) + "\n\n")
	sb.WriteString("/-- user callbacks and foreign locks reached while one of the library's mutexes is held -/\n")
	sb.WriteString("def callsUnderLock : List String := " + leanStrList(underLock) + "\n\n")
	sb.WriteString("/-- library call sites of the execution's unlocked getters -/\n")
	sb.WriteString("def unlockedGetterCallSites : List String := " + leanStrList(getters) + "\n\n")
	sb.WriteString("/-- call sites that hand the live execution (not a copy) to user code -/\n")
	sb.WriteString("def liveExecutionToUserCode : List String := " + leanStrList(live) + "\n\n")
	sb.WriteString("end Failsafe.Generated.Facts\n")
	if len(fx.errs) > 0 {
		return sb.String(), fmt.Errorf("%s", strings.Join(fx.errs, "; "))
	}
	return sb.String(), nil
}

var factsJSON []byte
