package main

// FACTS, part 2 (C14): the access table of the structs whose state is shared between goroutines.
//
// For every field of the tracked structs: every syntactic access `recv.field` in a method of the struct, whether it writes,
// and how it is guarded: inside a mutex region of the method ("mtx"), in a method documented as requiring external locking
// all of whose callers hold the lock ("mtx-ext"), on an atomic / channel / mutex typed field ("sync"), or not at all ("none").
// A field with no write outside constructors is "immutable". The table is compared with the committed expectation; the
// unguarded accesses to mutable fields are also emitted as Lean data and must equal the justified list in Props/C14.lean.

import (
	"fmt"
	"go/ast"
	"go/parser"
	"go/token"
	"os"
	"path/filepath"
	"sort"
	"strings"
)

type accessRow struct {
	Field, Method, Kind, Guard string
}

type structTarget struct {
	dir, file, name string
}

var accessTargets = []structTarget{
	{".", "execution.go", "execution"},
	{".", "result.go", "executionResult"},
	{"retrypolicy", "retryexecutor.go", "executor"},
	{"circuitbreaker", "circuitbreaker.go", "circuitBreaker"},
	{"ratelimiter", "ratelimiterstats.go", "smoothStats"},
	{"ratelimiter", "ratelimiterstats.go", "burstyStats"},
	{"bulkhead", "bulkhead.go", "bulkhead"},
}

func typeKind(t string) string {
	switch {
	case strings.Contains(t, "atomic."):
		return "sync"
	case strings.HasPrefix(t, "chan ") || strings.HasPrefix(t, "<-chan") || strings.HasPrefix(t, "chan<-"):
		return "sync"
	case strings.Contains(t, "sync.Mutex") || strings.Contains(t, "sync.RWMutex"):
		return "sync"
	}
	return "plain"
}

func parseDir(repo, dir string) []*ast.File {
	var out []*ast.File
	ents, _ := os.ReadDir(filepath.Join(repo, dir))
	for _, e := range ents {
		n := e.Name()
		if e.IsDir() || !strings.HasSuffix(n, ".go") || strings.HasSuffix(n, "_test.go") || strings.HasSuffix(n, "verif_hooks.go") {
			continue
		}
		f, err := parser.ParseFile(fset, filepath.Join(repo, dir, n), nil, parser.ParseComments)
		if err == nil {
			out = append(out, f)
		}
	}
	return out
}

func isLockCall(s ast.Stmt, suffix string) bool {
	es, ok := s.(*ast.ExprStmt)
	if !ok {
		return false
	}
	c, ok := es.X.(*ast.CallExpr)
	return ok && strings.HasSuffix(srcOf(c.Fun), suffix)
}

// accessTable returns the rows, the list of calls made while a mutex is held, and problems found
func accessTable(repo string) (rows []accessRow, underLock []string, spawnShared []string) {
	for _, tg := range accessTargets {
		files := parseDir(repo, tg.dir)
		// struct fields
		fields := map[string]string{}
		embedded := []string{}
		for _, f := range files {
			ast.Inspect(f, func(n ast.Node) bool {
				ts, ok := n.(*ast.TypeSpec)
				if !ok || ts.Name.Name != tg.name {
					return true
				}
				st, ok := ts.Type.(*ast.StructType)
				if !ok {
					return true
				}
				for _, fl := range st.Fields.List {
					if len(fl.Names) == 0 {
						embedded = append(embedded, srcOf(fl.Type))
					}
					for _, nm := range fl.Names {
						fields[nm.Name] = typeKind(srcOf(fl.Type))
					}
				}
				return false
			})
		}
		if len(fields) == 0 {
			rows = append(rows, accessRow{tg.name + ".<struct not found>", "-", "-", "none"})
			continue
		}
		// methods
		type meth struct {
			fd       *ast.FuncDecl
			external bool
		}
		meths := map[string]*meth{}
		for _, f := range files {
			for _, d := range f.Decls {
				fd, ok := d.(*ast.FuncDecl)
				if !ok || fd.Body == nil || recvName(fd) != tg.name {
					continue
				}
				doc := ""
				if fd.Doc != nil {
					doc = strings.ToLower(fd.Doc.Text())
				}
				meths[fd.Name.Name] = &meth{fd, strings.Contains(doc, "external locking") || strings.Contains(doc, "locked externally")}
			}
		}
		// per method: walk top-level statements tracking the lock state
		type call struct {
			method string
			locked bool
		}
		calls := map[string][]call{} // callee -> call sites
		names := []string{}
		for n := range meths {
			names = append(names, n)
		}
		sort.Strings(names)
		tmp := []accessRow{}
		for _, mn := range names {
			m := meths[mn]
			rv := ""
			if len(m.fd.Recv.List[0].Names) > 0 {
				rv = m.fd.Recv.List[0].Names[0].Name
			}
			locked := false
			var visit func(n ast.Node, locked bool)
			record := func(field, kind string, locked bool) {
				g := "none"
				switch {
				case fields[field] == "sync":
					g = "sync"
				case locked:
					g = "mtx"
				case m.external:
					g = "mtx-ext"
				}
				tmp = append(tmp, accessRow{tg.name + "." + field, mn, kind, g})
			}
			writes := map[ast.Node]bool{}
			ast.Inspect(m.fd.Body, func(n ast.Node) bool {
				switch v := n.(type) {
				case *ast.AssignStmt:
					for _, l := range v.Lhs {
						writes[l] = true
						if se, ok := l.(*ast.StarExpr); ok {
							writes[se.X] = true
						}
					}
				case *ast.IncDecStmt:
					writes[v.X] = true
				case *ast.UnaryExpr:
					if v.Op == token.AND {
						writes[v.X] = true
					}
				}
				return true
			})
			visit = func(n ast.Node, locked bool) {
				ast.Inspect(n, func(x ast.Node) bool {
					switch v := x.(type) {
					case *ast.SelectorExpr:
						if id, ok := v.X.(*ast.Ident); ok && id.Name == rv && rv != "" {
							if _, isField := fields[v.Sel.Name]; isField {
								kind := "R"
								if writes[v] {
									kind = "W"
								}
								record(v.Sel.Name, kind, locked)
							}
						}
					case *ast.CallExpr:
						fn := srcOf(v.Fun)
						if strings.HasPrefix(fn, rv+".") && rv != "" {
							callee := strings.TrimPrefix(fn, rv+".")
							if _, ok := meths[callee]; ok {
								calls[callee] = append(calls[callee], call{mn, locked || m.external})
							}
						}
						if locked || m.external {
							// what runs while the mutex is held: user callbacks and calls into other lockable objects
							if strings.Contains(fn, "Listener") || fn == "listener" || strings.HasPrefix(fn, rv+".on") || strings.Contains(fn, ".Lock") && !strings.HasPrefix(fn, rv+".mtx") {
								underLock = append(underLock, tg.name+"."+mn+": "+fn)
							}
						}
					}
					return true
				})
			}
			for _, st := range m.fd.Body.List {
				if isLockCall(st, ".Lock") || isLockCall(st, ".RLock") {
					locked = true
					continue
				}
				if isLockCall(st, ".Unlock") || isLockCall(st, ".RUnlock") {
					locked = false
					continue
				}
				if ds, ok := st.(*ast.DeferStmt); ok && strings.HasSuffix(srcOf(ds.Call.Fun), "nlock") {
					continue
				}
				visit(st, locked)
			}
		}
		// externally locked methods: every caller must hold the lock
		extOK := map[string]bool{}
		for n, m := range meths {
			if !m.external {
				continue
			}
			ok := true
			for _, c := range calls[n] {
				if !c.locked {
					ok = false
				}
			}
			extOK[n] = ok
		}
		// immutability: no write outside constructors (functions that are not methods never appear here)
		mutable := map[string]bool{}
		for _, r := range tmp {
			if r.Kind == "W" {
				mutable[r.Field] = true
			}
		}
		seen := map[string]bool{}
		for _, r := range tmp {
			if r.Guard == "mtx-ext" && !extOK[r.Method] {
				r.Guard = "none(unlocked caller of an externally locked method)"
			}
			if !mutable[r.Field] && r.Guard == "none" {
				r.Guard = "immutable"
			}
			key := r.Field + "|" + r.Method + "|" + r.Kind + "|" + r.Guard
			if !seen[key] {
				seen[key] = true
				rows = append(rows, r)
			}
		}
		_ = embedded
	}
	sort.Slice(rows, func(i, j int) bool {
		a, b := rows[i], rows[j]
		if a.Field != b.Field {
			return a.Field < b.Field
		}
		if a.Method != b.Method {
			return a.Method < b.Method
		}
		return a.Kind < b.Kind
	})
	sort.Strings(underLock)
	return
}

func accessStrings(rows []accessRow) (all []string, unguarded []string) {
	for _, r := range rows {
		s := fmt.Sprintf("%s %s %s %s", r.Field, r.Method, r.Kind, r.Guard)
		all = append(all, s)
		if strings.HasPrefix(r.Guard, "none") {
			unguarded = append(unguarded, fmt.Sprintf("%s %s %s", r.Field, r.Method, r.Kind))
		}
	}
	return
}
